//! Fault-placement sweeps: exactly one fault at *every* position of a sampled base
//! file. Systematic placement where uniform sampling would almost never land; bounded
//! per base file, not an enumeration of the scenario space.

use crate::rng::Rng;
use crate::seams::*;

pub struct SweepBase {
    pub bytes: Vec<u8>,
    /// Natural units (lines, rows) as `(start, len)`.
    pub spans: Vec<(usize, usize)>,
    /// Bytes whose every bit is flipped.
    pub flips: Vec<u32>,
}

impl SweepBase {
    pub fn new(bytes: Vec<u8>, spans: Vec<(usize, usize)>, rng: &mut Rng) -> Self {
        let len = bytes.len();
        // every bit of a small file; otherwise head, tail and a seeded sample
        let mut flips: Vec<u32> = if len <= 200 {
            (0..len as u32).collect()
        } else {
            let mut v: Vec<u32> = (0..64).chain(len as u32 - 16..len as u32).collect();
            for _ in 0..120 {
                v.push(rng.below(len as u64) as u32);
            }
            v
        };
        flips.sort_unstable();
        flips.dedup();
        SweepBase { bytes, spans, flips }
    }

    pub fn count(&self) -> usize {
        let len = self.bytes.len();
        // truncate(len+1) + flips*8 + 3 kinds * 3 sizes * len + garbage(len) + span loss + span dup
        //  + read_err sticky / one-shot, early_eof stop / resume: 4 * (len+1)
        (len + 1) + self.flips.len() * 8 + 9 * len + len + 2 * self.spans.len() + 4 * (len + 1)
    }

    pub fn job(&self, mut k: usize) -> (Vec<DiskFault>, ReaderCfg, &'static str) {
        let len = self.bytes.len();
        // reading through the stack `load_*` uses keeps the stream path honest in sweeps
        let rd = || ReaderCfg { stack: RStack::Buf { cap: 8192, by_ref: true }, ..ReaderCfg::plain() };
        if k <= len {
            return (vec![DiskFault::Truncate { len: k as u32 }], rd(), "sweep:truncate");
        }
        k -= len + 1;
        if k < self.flips.len() * 8 {
            let f = DiskFault::BitFlip { byte: self.flips[k / 8], bit: (k % 8) as u8 };
            return (vec![f], rd(), "sweep:bitflip");
        }
        k -= self.flips.len() * 8;
        if k < 9 * len {
            let (kind, rest) = (k / (3 * len), k % (3 * len));
            let (size, at) = ([1u32, 3, 8][rest / len], (rest % len) as u32);
            let f = match kind {
                0 => DiskFault::ZeroBlock { at, len: size },
                1 => DiskFault::LostBlock { at, len: size },
                _ => DiskFault::DupBlock { at, len: size },
            };
            return (vec![f], rd(), ["sweep:zero_block", "sweep:lost_block", "sweep:dup_block"][kind]);
        }
        k -= 9 * len;
        if k < len {
            let f = DiskFault::GarbageBlock { at: k as u32, len: 2, seed: 0x5eed ^ k as u64 };
            return (vec![f], rd(), "sweep:garbage_block");
        }
        k -= len;
        if k < self.spans.len() {
            let (s, l) = self.spans[k];
            return (vec![DiskFault::LostBlock { at: s as u32, len: l as u32 }], rd(), "sweep:lost_span");
        }
        k -= self.spans.len();
        if k < self.spans.len() {
            let (s, l) = self.spans[k];
            return (vec![DiskFault::DupBlock { at: s as u32, len: l as u32 }], rd(), "sweep:dup_span");
        }
        k -= self.spans.len();
        let raw = |err, early_eof| ReaderCfg { stack: RStack::Raw, chunks: vec![5], eintr_at: vec![], err, early_eof, eintr_at_eof: 0, err_after_eof: None, open_err: None };
        let which = k / (len + 1);
        let at = (k % (len + 1)) as u32;
        match which {
            0 => (vec![], raw(Some(StreamErr { at: At::Byte(at), kind: IoKind::Other, sticky: true }), None), "sweep:read_err_sticky"),
            1 => (vec![], raw(Some(StreamErr { at: At::Byte(at), kind: IoKind::TimedOut, sticky: false }), None), "sweep:read_err_once"),
            2 => (vec![], raw(None, Some(EarlyEof { at_byte: at, resume: false })), "sweep:early_eof"),
            _ => (vec![], raw(None, Some(EarlyEof { at_byte: at, resume: true })), "sweep:early_eof_resume"),
        }
    }
}
