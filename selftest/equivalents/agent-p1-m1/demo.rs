//! Demo for property C13 (PNM codec: lossless round trip and total decoding).
//!
//! Copy to `core/tests/demo.rs` and run with
//! `cargo test -p retrofire-core --features std --offline --test demo`.
//!
//! Only states what the property states: it never looks at the exact bytes
//! written, at the number of read/write calls, at how far the reader was
//! advanced, at which `Error` variant comes back, or at what a decoded sample
//! is *numerically* for a maxval other than 255.

use std::io::{self, ErrorKind, Read, Write};
use std::panic::catch_unwind;

use retrofire_core::math::{rgb, Color3};
use retrofire_core::util::buf::{AsSlice2, Buf2, Slice2};
use retrofire_core::util::pnm::{parse_pnm, read_pnm, write_ppm};

/// Accepts at most one byte per `write` call and is interrupted now and then.
struct Trickle {
    out: Vec<u8>,
    calls: usize,
}
impl Write for Trickle {
    fn write(&mut self, buf: &[u8]) -> io::Result<usize> {
        self.calls += 1;
        if self.calls % 5 == 0 {
            return Err(ErrorKind::Interrupted.into());
        }
        match buf.first() {
            None => Ok(0),
            Some(&b) => {
                self.out.push(b);
                Ok(1)
            }
        }
    }
    fn flush(&mut self) -> io::Result<()> {
        Ok(())
    }
}

/// Returns at most one byte per `read` call and is interrupted now and then.
/// After the data it reports end of input, as any finite source does.
struct Drip<'a> {
    data: &'a [u8],
    calls: usize,
}
impl Read for Drip<'_> {
    fn read(&mut self, buf: &mut [u8]) -> io::Result<usize> {
        self.calls += 1;
        if self.calls % 7 == 0 {
            return Err(ErrorKind::Interrupted.into());
        }
        if buf.is_empty() {
            return Ok(0);
        }
        match self.data.split_first() {
            None => Ok(0),
            Some((&b, rest)) => {
                buf[0] = b;
                self.data = rest;
                Ok(1)
            }
        }
    }
}

/// The pixels of a view in row-major order, through plain indexing.
fn pixels(view: Slice2<Color3>) -> Vec<[u8; 3]> {
    let (w, h) = view.dims();
    let mut v = Vec::new();
    for y in 0..h {
        for x in 0..w {
            v.push(view[[x, y]].0);
        }
    }
    v
}

fn round_trip(view: Slice2<Color3>) {
    let mut sink = Trickle { out: Vec::new(), calls: 0 };
    write_ppm(&mut sink, view).expect("write through trickling writer");

    // Through a reader
    let back = read_pnm(Drip { data: &sink.out, calls: 0 })
        .expect("read back through dripping reader");
    assert_eq!(back.dims(), view.dims());
    assert_eq!(pixels(back.as_slice2()), pixels(view));
    assert_eq!(
        back.data().len() as u64,
        view.width() as u64 * view.height() as u64
    );

    // And straight from the bytes
    let back = parse_pnm(sink.out.iter().copied()).expect("parse back");
    assert_eq!(back.dims(), view.dims());
    assert_eq!(pixels(back.as_slice2()), pixels(view));
}

/// Pixel bytes chosen so that the raster starts with bytes that look like
/// whitespace, a comment or digits, and goes through all byte values.
fn awkward((w, h): (u32, u32)) -> Buf2<Color3> {
    const LEAD: &[u8] = b"\n# 12\r\t #\x0c\x0b 7 255\n\n##0 +-P6";
    let mut i = 0usize;
    Buf2::new_with((w, h), |_, _| {
        let mut next = || {
            let b = if i < LEAD.len() {
                LEAD[i]
            } else {
                (i * 37 + 11) as u8
            };
            i += 1;
            b
        };
        rgb(next(), next(), next())
    })
}

#[test]
fn round_trip_owned_and_strided() {
    for dims in [(1, 1), (7, 5), (16, 3), (1, 9), (9, 1)] {
        let buf = awkward(dims);
        round_trip(buf.as_slice2());
    }
    let big = awkward((11, 9));
    // Strided sub-views: stride 11, narrower width, various offsets
    round_trip(big.slice((2..7, 1..6)));
    round_trip(big.slice((0..1, 0..9)));
    round_trip(big.slice((10..11, 3..4)));
    round_trip(big.slice((3..11, 8..9)));
    round_trip(big.slice((1..10, 0..9)));
    // A view made by hand over a plain slice, with slack after the last row
    let raw: Vec<Color3> = (0..40u8).map(|i| rgb(i, b'#', b' ')).collect();
    round_trip(Slice2::new((3, 5), 7, &raw));
}

#[test]
fn round_trip_empty() {
    let big = awkward((6, 4));
    round_trip(big.slice((2..2, 1..3))); // 0 x 2
    round_trip(big.slice((1..5, 2..2))); // 4 x 0
    round_trip(big.slice((2..2, 1..1))); // 0 x 0
    round_trip(big.slice((6..6, 3..4))); // 0 x 1, at the right edge
    round_trip(Buf2::<Color3>::new_from((0, 3), []).as_slice2());
    round_trip(Buf2::<Color3>::new_from((3, 0), []).as_slice2());
}

fn text_samples(samples: &[u8], seps: &[&str]) -> Vec<u8> {
    let mut out = Vec::new();
    for (i, s) in samples.iter().enumerate() {
        out.extend_from_slice(s.to_string().as_bytes());
        out.extend_from_slice(seps[i % seps.len()].as_bytes());
    }
    out
}

fn decode(bytes: &[u8]) -> ((u32, u32), Vec<[u8; 3]>) {
    let a = parse_pnm(bytes.iter().copied()).expect("parse_pnm");
    let b = read_pnm(Drip { data: bytes, calls: 0 }).expect("read_pnm");
    assert_eq!(a.dims(), b.dims());
    assert_eq!(a.data(), b.data());
    assert_eq!(a.data().len() as u32, a.width() * a.height());
    (a.dims(), pixels(a.as_slice2()))
}

/// Header spellings: whitespace runs and whitespace-preceded comments between
/// the fields, a single whitespace byte after the last one.
const HEADERS: &[(&str, &str, &str, &str)] = &[
    // after magic, after width, after height, after maxval
    (" ", " ", " ", "\n"),
    ("\n", " ", "\n", "\n"),
    ("\n# a comment 1 2 3\n", " ", "\n", "\n"),
    (" \t\r\n", "\t\t", " \r\n #c\n#d\n  ", " "),
    (" # P6 9 9 9\n", " #\n", "\x0c", "\t"),
    ("\r\n#\n\n\n", "\n# 255\n", " # x # y\n", "\r"),
];

#[test]
fn text_and_binary_agree() {
    let (w, h) = (3u32, 2u32);
    // Starts with bytes that look like whitespace, '#', digits
    let rgb_samples: Vec<u8> = vec![
        b' ', b'#', b'1', b'\n', b'2', b'\t', 0, 255, 128, 7, 8, 9, 10, 13, 32,
        35, 48, 57,
    ];
    let gray_samples: Vec<u8> = vec![b'\n', b'#', b'9', 0, 255, 100];

    for &(a, b, c, d) in HEADERS {
        for max in ["255", "0255"] {
            // Colour
            let mut p6 = format!("P6{a}{w}{b}{h}{c}{max}{d}").into_bytes();
            p6.extend_from_slice(&rgb_samples);
            let mut p3 = format!("P3{a}{w}{b}{h}{c}{max}{d}").into_bytes();
            p3.extend(text_samples(&rgb_samples, &[" ", "\n", "  ", "\t", "\r\n"]));
            let (d6, px6) = decode(&p6);
            let (d3, px3) = decode(&p3);
            assert_eq!(d6, (w, h));
            assert_eq!(d3, (w, h));
            assert_eq!(px6, px3);
            // At maxval 255 the samples are what they are
            let expect: Vec<[u8; 3]> = rgb_samples
                .chunks(3)
                .map(|c| [c[0], c[1], c[2]])
                .collect();
            assert_eq!(px6, expect);

            // Grey
            let mut p5 = format!("P5{a}{w}{b}{h}{c}{max}{d}").into_bytes();
            p5.extend_from_slice(&gray_samples);
            let mut p2 = format!("P2{a}{w}{b}{h}{c}{max}{d}").into_bytes();
            p2.extend(text_samples(&gray_samples, &["\n", " ", " \t "]));
            let (d5, px5) = decode(&p5);
            let (d2, px2) = decode(&p2);
            assert_eq!(d5, (w, h));
            assert_eq!(d2, (w, h));
            assert_eq!(px5, px2);
        }
    }
}

#[test]
fn text_and_binary_agree_at_other_maxvals() {
    // Only agreement is asked for, not what the decoded numbers are.
    for max in [1u8, 15, 100, 254] {
        let samples: Vec<u8> = (0..12u32)
            .map(|i| ((i * 53 + 5) % (max as u32 + 1)) as u8)
            .collect();
        let mut p6 = format!("P6 2 2 {max}\n").into_bytes();
        p6.extend_from_slice(&samples);
        let mut p3 = format!("P3 2 2 {max}\n").into_bytes();
        p3.extend(text_samples(&samples, &[" "]));
        assert_eq!(decode(&p6), decode(&p3));

        let mut p5 = format!("P5 4 3 {max}\n").into_bytes();
        p5.extend_from_slice(&samples);
        let mut p2 = format!("P2 4 3 {max}\n").into_bytes();
        p2.extend(text_samples(&samples, &["\n"]));
        assert_eq!(decode(&p5), decode(&p2));
    }
}

#[test]
fn decoding_is_total() {
    let mut good = Vec::new();
    write_ppm(&mut good, awkward((4, 3)).as_slice2()).unwrap();

    let mut cases: Vec<Vec<u8>> = vec![
        b"".to_vec(),
        b"P".to_vec(),
        b"P6".to_vec(),
        b"P6 ".to_vec(),
        b"P6 2".to_vec(),
        b"P6 2 2".to_vec(),
        b"P6 2 2 255".to_vec(),
        b"P6 2 2 255\n".to_vec(),
        b"P6 2 2 255\n\0\0\0\0\0\0\0\0\0\0\0".to_vec(),
        b"P6 4294967295 4294967295 255\nabc".to_vec(),
        b"P6 65536 65536 255\nabc".to_vec(),
        b"P6 65535 65537 255\nabc".to_vec(),
        b"P5 4294967295 1 255\nabc".to_vec(),
        b"P3 4294967295 2 255\n1 2 3".to_vec(),
        b"P2 3000000000 1 255\n1 2 3".to_vec(),
        b"P6 99999999999999999999 1 255\n".to_vec(),
        b"P6 0 0 255\n".to_vec(),
        b"P6 0 7 255\nxyz".to_vec(),
        b"P5 7 0 255\nxyz".to_vec(),
        b"P3 0 2 255\n1 2 3".to_vec(),
        b"P2 2 0 255\n".to_vec(),
        b"P5 2 2 255\nabcdefghij".to_vec(),
        b"P5 2 2 255\nabc".to_vec(),
        b"P3 1 1 255\n256 0 0".to_vec(),
        b"P3 1 1 255\n1 2".to_vec(),
        b"P3 1 1 255\n1 2 x".to_vec(),
        b"P2 1 1 255\n-1".to_vec(),
        b"P2 1 1 255\n+1".to_vec(),
        b"P2 2 1 255\n1#2\n3".to_vec(),
        b"P6 -1 1 255\n".to_vec(),
        b"P6 +1 +1 +255\nabc".to_vec(),
        b"P6 1 1 0\nabc".to_vec(),
        b"P6 1 1 65535\nabc".to_vec(),
        b"P6 1 1 65536\nabc".to_vec(),
        b"P6 1 1 300\nabcdef".to_vec(),
        b"P3 1 1 0\n0 0 0".to_vec(),
        b"P2 1 1 65535\n300".to_vec(),
        b"P6 1 1 255#c\nabc".to_vec(),
        b"P6 1#c\n1 255\nabc".to_vec(),
        b"P6#c\n1 1 255\nabc".to_vec(),
        b"P6\x0b1\x0b1\x0b255\x0babc".to_vec(),
        b"P61 1 255\nabc".to_vec(),
        b"P1 2 2\n0 1 1 0".to_vec(),
        b"P4 4 2\n\x69".to_vec(),
        b"P4 0 0\n".to_vec(),
        b"P4 9 9\n\x69".to_vec(),
        b"P7 1 1 255\n".to_vec(),
        b"P0 1 1 255\n".to_vec(),
        b"\xff\xfe\xfd".to_vec(),
        b"P6 # never ends".to_vec(),
        b"P6 1 1 # never ends".to_vec(),
        "P6 1 1 2\u{b2}5\nabc".as_bytes().to_vec(),
        b"P6 1 1 255\xa0abc".to_vec(),
    ];
    // Every truncation of a good file, and some byte-level mutations of it
    for n in 0..good.len() {
        cases.push(good[..n].to_vec());
    }
    for i in 0..good.len().min(24) {
        for b in [0u8, b' ', b'#', b'9', b'\n', b'-', 0xff] {
            let mut m = good.clone();
            m[i] = b;
            cases.push(m);
            let mut m = good.clone();
            m.insert(i, b);
            cases.push(m);
        }
        let mut m = good.clone();
        m.remove(i);
        cases.push(m);
    }

    for case in &cases {
        let shown = String::from_utf8_lossy(&case[..case.len().min(40)])
            .into_owned();
        let c = case.clone();
        let res = catch_unwind(move || {
            let a = parse_pnm(c.iter().copied());
            let b = read_pnm(Drip { data: &c, calls: 0 });
            for r in [&a, &b] {
                if let Ok(img) = r {
                    let (w, h) = img.dims();
                    assert_eq!(
                        img.data().len() as u64,
                        w as u64 * h as u64,
                        "pixel count"
                    );
                }
            }
        });
        assert!(res.is_ok(), "panicked on {shown:?}");
    }

    // Dimensions of an Ok result are the ones in the header
    let img = parse_pnm(*b"P5 3 2 255\nabcdef").unwrap();
    assert_eq!(img.dims(), (3, 2));
    let img = parse_pnm(*b"P6 0 7 255\n").unwrap();
    assert_eq!(img.dims(), (0, 7));
    assert_eq!(img.data().len(), 0);
    let img = parse_pnm(*b"P2 5 0 255\n").unwrap();
    assert_eq!(img.dims(), (5, 0));
    assert_eq!(img.data().len(), 0);
}
