//! The simulated environment: `SimSource` (a `Read`), `SimSink` (a `Write`) and the
//! simulated disk between them. Every behaviour is decided by explicit data in the
//! scenario (`ReaderCfg`, `WriterCfg`, `DiskFault`), never by a draw made while the
//! run proceeds, so executing a scenario is a pure function of (scenario, code).

use std::cell::RefCell;
use std::io::{self, BufReader, BufWriter, LineWriter, Read, Write};
use std::rc::Rc;

use serde::{Deserialize, Serialize};

use crate::rng::Fnv;

// ---------------------------------------------------------------------------
// Scenario data
// ---------------------------------------------------------------------------

#[derive(Serialize, Deserialize, Clone, Copy, Debug, PartialEq, Eq)]
pub enum IoKind {
    StorageFull,
    Other,
    BrokenPipe,
    WouldBlock,
    TimedOut,
    UnexpectedEof,
    InvalidData,
    PermissionDenied,
    ConnectionReset,
    /// Write side only: `Ok(0)` for a non-empty buffer.
    WriteZero,
    /// `File::open` / `File::create` only.
    NotFound,
}

pub const READ_ERR_KINDS: [IoKind; 8] = [
    IoKind::Other,
    IoKind::BrokenPipe,
    IoKind::WouldBlock,
    IoKind::TimedOut,
    IoKind::UnexpectedEof,
    IoKind::InvalidData,
    IoKind::PermissionDenied,
    IoKind::ConnectionReset,
];

pub const WRITE_ERR_KINDS: [IoKind; 7] = [
    IoKind::StorageFull,
    IoKind::Other,
    IoKind::BrokenPipe,
    IoKind::WouldBlock,
    IoKind::TimedOut,
    IoKind::PermissionDenied,
    IoKind::WriteZero,
];

/// What `File::open` / `File::create` fail with (path wrappers, through the File seam).
pub const OPEN_ERR_KINDS: [IoKind; 6] =
    [IoKind::NotFound, IoKind::PermissionDenied, IoKind::Other, IoKind::StorageFull, IoKind::TimedOut, IoKind::InvalidData];

impl IoKind {
    pub fn to_std(self) -> io::ErrorKind {
        use io::ErrorKind as E;
        match self {
            IoKind::StorageFull => E::StorageFull,
            IoKind::Other => E::Other,
            IoKind::BrokenPipe => E::BrokenPipe,
            IoKind::WouldBlock => E::WouldBlock,
            IoKind::TimedOut => E::TimedOut,
            IoKind::UnexpectedEof => E::UnexpectedEof,
            IoKind::InvalidData => E::InvalidData,
            IoKind::PermissionDenied => E::PermissionDenied,
            IoKind::ConnectionReset => E::ConnectionReset,
            IoKind::WriteZero => E::WriteZero,
            IoKind::NotFound => E::NotFound,
        }
    }
}

/// Where a stream error fires.
#[derive(Serialize, Deserialize, Clone, Copy, Debug, PartialEq, Eq)]
pub enum At {
    /// At the n-th call (0-based, counting every `read`/`write` call).
    Call(u32),
    /// Once exactly this many bytes have been transferred; earlier transfers are
    /// clipped so that the error lands on the byte, not merely near it.
    Byte(u32),
}

#[derive(Serialize, Deserialize, Clone, Copy, Debug, PartialEq, Eq)]
pub struct StreamErr {
    pub at: At,
    pub kind: IoKind,
    /// Sticky: every later call fails too. One-shot: the stream carries on afterwards.
    pub sticky: bool,
}

#[derive(Serialize, Deserialize, Clone, Copy, Debug, PartialEq, Eq)]
pub struct EarlyEof {
    pub at_byte: u32,
    /// false: `Ok(0)` for ever after. true: a single `Ok(0)`, then data again (a file
    /// that is still being appended to).
    pub resume: bool,
}

#[derive(Serialize, Deserialize, Clone, Copy, Debug, PartialEq, Eq)]
pub enum RStack {
    /// `SimSource` by value.
    Raw,
    /// `&mut SimSource`.
    RawRef,
    /// `BufReader::with_capacity(cap, src)`, by value or as `&mut` (what `load_*` does).
    Buf { cap: u32, by_ref: bool },
    /// Two sources glued with `Read::chain`, split at a byte offset.
    Chain { split: u32 },
    /// The same inside a `BufReader`.
    ChainBuf { split: u32, cap: u32 },
    /// The path-based wrapper (`load_pnm` / `load_obj`), its `File` redirected to the
    /// simulated source through the guarded seam in /repo (`util::verif_fs`).
    Wrapper,
}

#[derive(Serialize, Deserialize, Clone, Debug, PartialEq, Eq)]
pub struct ReaderCfg {
    pub stack: RStack,
    /// Transfer size per successful call, cycled; 0 = as much as was asked for.
    pub chunks: Vec<u16>,
    /// Call numbers answered with `Err(Interrupted)`.
    pub eintr_at: Vec<u32>,
    pub err: Option<StreamErr>,
    pub early_eof: Option<EarlyEof>,
    /// This many `Err(Interrupted)` (at most 3) immediately before the first genuine
    /// end-of-file answer.
    #[serde(default)]
    pub eintr_at_eof: u8,
    /// Once the genuine end of file has been reported, every further call fails with
    /// this error (a closed pipe or socket polled again).
    #[serde(default)]
    pub err_after_eof: Option<IoKind>,
    /// Path wrappers only (through the File seam): `File::open` itself fails with this
    /// error (a vanished or unreadable file, a failing mount).
    #[serde(default)]
    pub open_err: Option<IoKind>,
}

impl ReaderCfg {
    pub fn plain() -> Self {
        ReaderCfg {
            stack: RStack::Raw,
            chunks: vec![],
            eintr_at: vec![],
            err: None,
            early_eof: None,
            eintr_at_eof: 0,
            err_after_eof: None,
            open_err: None,
        }
    }
}

#[derive(Serialize, Deserialize, Clone, Copy, Debug, PartialEq, Eq)]
pub enum WStack {
    /// `SimSink` by value / `&mut SimSink`.
    Raw { by_ref: bool },
    /// `BufWriter::with_capacity`; by value is what `save_ppm` does (flush happens in `Drop`).
    Buf { cap: u32, by_ref: bool },
    /// `LineWriter`.
    Line { by_ref: bool },
    /// The path-based wrapper (`save_ppm`), its `File` redirected to the simulated sink.
    Wrapper,
}

#[derive(Serialize, Deserialize, Clone, Debug, PartialEq, Eq)]
pub struct WriterCfg {
    pub stack: WStack,
    pub chunks: Vec<u16>,
    pub eintr_at: Vec<u32>,
    pub flush_eintr_at: Vec<u32>,
    pub err: Option<StreamErr>,
    /// Error surfaced only at `flush`, sticky.
    pub flush_err: Option<IoKind>,
    /// Path wrapper only (through the File seam): `File::create` itself fails with this
    /// error (read-only or full file system, missing directory).
    #[serde(default)]
    pub create_err: Option<IoKind>,
}

impl WriterCfg {
    pub fn plain() -> Self {
        WriterCfg {
            stack: WStack::Raw { by_ref: true },
            chunks: vec![],
            eintr_at: vec![],
            flush_eintr_at: vec![],
            err: None,
            flush_err: None,
            create_err: None,
        }
    }
}

#[derive(Serialize, Deserialize, Clone, Copy, Debug, PartialEq, Eq)]
pub enum DiskFault {
    /// Power loss: only the first `keep` accepted bytes are durable.
    Crash { keep: u32 },
    /// The stored file is cut to `len` bytes.
    Truncate { len: u32 },
    BitFlip { byte: u32, bit: u8 },
    /// A block reads back as zeros (lost write on preallocated space).
    ZeroBlock { at: u32, len: u32 },
    /// A block is missing, the rest shifts down (lost append).
    LostBlock { at: u32, len: u32 },
    /// A block is present twice (replayed write).
    DupBlock { at: u32, len: u32 },
    /// A block holds unrelated bytes (misdirected write, media corruption); the bytes
    /// are SplitMix64 output from `seed`.
    GarbageBlock { at: u32, len: u32, seed: u64 },
    /// A block holds the bytes of another block of the same file (misdirected or stale
    /// read/write).
    CopyBlock { from: u32, to: u32, len: u32 },
}

// ---------------------------------------------------------------------------
// Ledger of what actually fired, and the event log
// ---------------------------------------------------------------------------

macro_rules! ledger_kinds {
    ($($name:ident),* $(,)?) => {
        #[allow(non_camel_case_types)]
        #[derive(Clone, Copy, Debug, PartialEq, Eq)]
        #[repr(usize)]
        pub enum K { $($name),* , _N }
        pub const K_NAMES: [&str; K::_N as usize] = [$(stringify!($name)),*];
    };
}

ledger_kinds!(
    // benign
    short_read,
    eintr_read,
    short_write,
    eintr_write,
    eintr_flush,
    // destructive, stream
    read_err,
    early_eof,
    early_eof_resumed,
    write_err,
    write_zero,
    flush_err,
    // destructive, storage
    crash_write,
    truncate,
    bitflip,
    zero_block,
    lost_block,
    dup_block,
    garbage_block,
    copy_block,
    read_err_after_eof,
    open_err,
    create_err,
    // bookkeeping (not faults)
    read_calls,
    write_calls,
    flush_calls,
    eof_polls,
    eintr_before_eof,
    unflushed_bytes_lost,
    bytes_read,
    bytes_written,
);

#[derive(Clone, Debug, PartialEq, Eq)]
pub struct Ledger(pub [u64; K::_N as usize]);

impl Default for Ledger {
    fn default() -> Self {
        Ledger([0; K::_N as usize])
    }
}

impl Ledger {
    pub fn bump(&mut self, k: K) {
        self.0[k as usize] += 1;
    }
    pub fn add(&mut self, k: K, n: u64) {
        self.0[k as usize] += n;
    }
    pub fn get(&self, k: K) -> u64 {
        self.0[k as usize]
    }
    pub fn merge(&mut self, o: &Ledger) {
        for i in 0..self.0.len() {
            self.0[i] += o.0[i];
        }
    }
    pub fn benign_fired(&self) -> u64 {
        [K::short_read, K::eintr_read, K::short_write, K::eintr_write, K::eintr_flush]
            .iter()
            .map(|&k| self.get(k))
            .sum()
    }
    pub fn read_destructive(&self) -> u64 {
        self.get(K::read_err) + self.get(K::early_eof) + self.get(K::early_eof_resumed) + self.get(K::read_err_after_eof) + self.get(K::open_err)
    }
    pub fn write_destructive(&self) -> u64 {
        self.get(K::write_err) + self.get(K::write_zero) + self.get(K::flush_err) + self.get(K::create_err)
    }
    pub fn storage_fired(&self) -> u64 {
        [K::crash_write, K::truncate, K::bitflip, K::zero_block, K::lost_block, K::dup_block, K::garbage_block, K::copy_block]
            .iter()
            .map(|&k| self.get(k))
            .sum()
    }
    pub fn any_fault_fired(&self) -> bool {
        self.benign_fired() + self.read_destructive() + self.write_destructive() + self.storage_fired() > 0
    }
    pub fn to_map(&self) -> std::collections::BTreeMap<String, u64> {
        K_NAMES
            .iter()
            .enumerate()
            .filter(|(i, _)| self.0[*i] != 0)
            .map(|(i, n)| (n.to_string(), self.0[i]))
            .collect()
    }
}

#[derive(Serialize, Deserialize, Clone, Debug, PartialEq, Eq)]
pub struct Event {
    /// Global event sequence number: the simulator's only clock.
    pub seq: u32,
    /// 'R' read, 'W' write, 'F' flush, 'D' disk fault.
    pub seam: char,
    pub call: u32,
    pub req: u32,
    pub decision: String,
    pub n: u32,
}

/// Event log shared by all seams of one run. Always hashed; stored only on request
/// (replays, samples), so that logging cannot perturb anything.
#[derive(Debug, Default)]
pub struct Log {
    pub seq: u32,
    pub hash: Fnv,
    pub record: bool,
    pub events: Vec<Event>,
    pub ledger: Ledger,
}

impl Log {
    pub fn new(record: bool) -> Rc<RefCell<Log>> {
        Rc::new(RefCell::new(Log { record, ..Default::default() }))
    }
    pub fn event(&mut self, seam: char, call: u32, req: usize, decision: &'static str, n: usize) {
        let seq = self.seq;
        self.seq += 1;
        self.hash.byte(seam as u8);
        self.hash.u64(((call as u64) << 32) | (req as u64 & 0xffff_ffff));
        self.hash.bytes(decision.as_bytes());
        self.hash.u64(n as u64);
        if self.record && self.events.len() < 4000 {
            self.events.push(Event {
                seq,
                seam,
                call,
                req: req as u32,
                decision: decision.to_string(),
                n: n as u32,
            });
        }
    }
}

/// A seam never answers `Interrupted` more often than this in a row: progress is
/// guaranteed, so a consumer that retries without bound terminates, and one that gives up
/// (or counts success) after a few retries is found out.
pub const MAX_CONSECUTIVE_EINTR: u8 = 20;

/// Payload of the sentinel unwind that stops a consumer which exceeded its step bound.
pub struct StepLimit {
    pub seam: char,
    pub calls: u32,
}

// ---------------------------------------------------------------------------
// SimSource
// ---------------------------------------------------------------------------

pub struct SrcCore {
    pub data: Vec<u8>,
    pub pos: usize,
    /// Where the one-off premature `Ok(0)` (`early_eof` with `resume`) was answered.
    pub resumed_at: Option<usize>,
    chunks: Vec<u16>,
    chunk_i: usize,
    eintr_at: Vec<u32>,
    err: Option<StreamErr>,
    early_eof: Option<EarlyEof>,
    calls: u32,
    consecutive_eintr: u8,
    err_fired: bool,
    eof_fired: bool,
    eintr_at_eof: u8,
    eintr_at_eof0: u8,
    err_after_eof: Option<IoKind>,
    real_eof_reported: bool,
    open_err: Option<IoKind>,
    limit: u32,
    log: Rc<RefCell<Log>>,
}

/// A `Read` whose every decision comes from a `ReaderCfg`.
pub struct SimSource {
    core: Rc<RefCell<SrcCore>>,
    /// This handle delivers bytes below `hi` only (used for `Chain`).
    hi: usize,
}

impl SimSource {
    pub fn new(data: Vec<u8>, cfg: &ReaderCfg, log: Rc<RefCell<Log>>) -> (SimSource, Rc<RefCell<SrcCore>>) {
        let n_eintr = cfg.eintr_at.len() as u32;
        let limit = u32::try_from(2 * data.len() as u64).unwrap_or(u32::MAX).saturating_add(n_eintr).saturating_add(64);
        let eintr_at_eof = cfg.eintr_at_eof.min(MAX_CONSECUTIVE_EINTR);
        let hi = data.len();
        let core = Rc::new(RefCell::new(SrcCore {
            data,
            pos: 0,
            resumed_at: None,
            chunks: cfg.chunks.clone(),
            chunk_i: 0,
            eintr_at: cfg.eintr_at.clone(),
            err: cfg.err,
            early_eof: cfg.early_eof,
            calls: 0,
            consecutive_eintr: 0,
            err_fired: false,
            eof_fired: false,
            eintr_at_eof,
            eintr_at_eof0: eintr_at_eof,
            err_after_eof: cfg.err_after_eof,
            real_eof_reported: false,
            open_err: cfg.open_err,
            limit,
            log,
        }));
        (SimSource { core: core.clone(), hi }, core)
    }

    /// A fresh handle on the same file, read from the start again with the same schedule
    /// and faults.
    #[allow(dead_code)]
    fn rewound(core: &Rc<RefCell<SrcCore>>) -> SimSource {
        let hi = {
            let c = &mut *core.borrow_mut();
            c.pos = 0;
            c.resumed_at = None;
            c.chunk_i = 0;
            c.calls = 0;
            c.consecutive_eintr = 0;
            c.err_fired = false;
            c.eof_fired = false;
            c.eintr_at_eof = c.eintr_at_eof0;
            c.real_eof_reported = false;
            let n = c.data.len();
            c.log.borrow_mut().event('O', 1, 0, "reopen", n);
            n
        };
        SimSource { core: core.clone(), hi }
    }

    /// The answer of `File::open` for this source, when the scenario makes it fail.
    #[allow(dead_code)]
    fn open_fault(&self) -> Option<io::Error> {
        let c = self.core.borrow();
        let k = c.open_err?;
        let mut log = c.log.borrow_mut();
        log.ledger.bump(K::open_err);
        log.event('O', 0, 0, "open_err", k as usize);
        Some(k.to_std().into())
    }

    /// Splits into two handles over the same core: `[0, split)` and `[split, len)`.
    pub fn split(self, split: usize) -> (SimSource, SimSource) {
        let hi = self.hi;
        let s = split.min(hi);
        (SimSource { core: self.core.clone(), hi: s }, SimSource { core: self.core, hi })
    }
}

impl Read for SimSource {
    fn read(&mut self, buf: &mut [u8]) -> io::Result<usize> {
        let c = &mut *self.core.borrow_mut();
        let call = c.calls;
        c.calls += 1;
        let log = c.log.clone();
        let mut log = log.borrow_mut();
        log.ledger.bump(K::read_calls);
        if call >= c.limit {
            log.event('R', call, buf.len(), "step_limit", 0);
            drop(log);
            std::panic::panic_any(StepLimit { seam: 'R', calls: call });
        }
        if buf.is_empty() {
            log.event('R', call, 0, "empty", 0);
            return Ok(0);
        }
        // 1. stream error
        let mut byte_limit = usize::MAX;
        if let Some(e) = c.err {
            let due = match e.at {
                At::Call(n) => {
                    if e.sticky {
                        call >= n
                    } else {
                        call == n
                    }
                }
                At::Byte(b) => {
                    let b = b as usize;
                    if c.pos < b {
                        byte_limit = b;
                    }
                    c.pos >= b && (e.sticky || !c.err_fired)
                }
            };
            if due {
                c.err_fired = true;
                c.consecutive_eintr = 0;
                log.ledger.bump(K::read_err);
                log.event('R', call, buf.len(), "err", e.kind as usize);
                return Err(e.kind.to_std().into());
            }
        }
        // 2. interruption (at most 3 in a row, then progress)
        if c.consecutive_eintr < MAX_CONSECUTIVE_EINTR && c.eintr_at.binary_search(&call).is_ok() {
            c.consecutive_eintr += 1;
            log.ledger.bump(K::eintr_read);
            log.event('R', call, buf.len(), "eintr", 0);
            return Err(io::ErrorKind::Interrupted.into());
        }
        c.consecutive_eintr = 0;
        // 3. early end of file
        if let Some(ee) = c.early_eof {
            let at = ee.at_byte as usize;
            if c.pos < at {
                byte_limit = byte_limit.min(at);
            } else if c.pos < c.data.len() {
                if !ee.resume {
                    if !c.eof_fired {
                        log.ledger.bump(K::early_eof);
                    }
                    c.eof_fired = true;
                    log.event('R', call, buf.len(), "early_eof", 0);
                    return Ok(0);
                } else if !c.eof_fired {
                    c.eof_fired = true;
                    c.resumed_at = Some(c.pos);
                    log.ledger.bump(K::early_eof_resumed);
                    log.event('R', call, buf.len(), "early_eof_once", 0);
                    return Ok(0);
                }
            }
        }
        // 4. data
        let end = self.hi.min(c.data.len()).min(byte_limit);
        let avail = end.saturating_sub(c.pos);
        if avail == 0 {
            if c.eintr_at_eof > 0 && c.pos >= c.data.len() {
                c.eintr_at_eof -= 1;
                log.ledger.bump(K::eintr_read);
                log.ledger.bump(K::eintr_before_eof);
                log.event('R', call, buf.len(), "eintr_eof", 0);
                return Err(io::ErrorKind::Interrupted.into());
            }
            if c.pos >= c.data.len() {
                if let (true, Some(k)) = (c.real_eof_reported, c.err_after_eof) {
                    log.ledger.bump(K::read_err_after_eof);
                    log.event('R', call, buf.len(), "err_after_eof", k as usize);
                    return Err(k.to_std().into());
                }
                c.real_eof_reported = true;
            }
            log.ledger.bump(K::eof_polls);
            log.event('R', call, buf.len(), "eof", 0);
            return Ok(0);
        }
        let want = buf.len().min(avail);
        let chunk = if c.chunks.is_empty() {
            0
        } else {
            let k = c.chunks[c.chunk_i % c.chunks.len()];
            c.chunk_i += 1;
            k as usize
        };
        let n = if chunk == 0 { want } else { want.min(chunk) };
        // A transfer clipped by a planned fault position is not itself a short read
        // unless the buffer and remaining data would have allowed more.
        if n < buf.len().min(self.hi.min(c.data.len()) - c.pos) {
            log.ledger.bump(K::short_read);
        }
        buf[..n].copy_from_slice(&c.data[c.pos..c.pos + n]);
        c.pos += n;
        log.ledger.add(K::bytes_read, n as u64);
        log.event('R', call, buf.len(), "ok", n);
        Ok(n)
    }
}

// ---------------------------------------------------------------------------
// SimSink
// ---------------------------------------------------------------------------

pub struct SinkCore {
    /// Bytes made durable by a successful `flush`: what is on the simulated disk if no
    /// storage fault follows.
    pub disk: Vec<u8>,
    /// Bytes accepted by `write` but not yet flushed. They are volatile: whatever is still
    /// here when the writer is let go of is lost (a buffering device, a page cache before
    /// fsync, a pipe whose far end has not read yet).
    pub pending: Vec<u8>,
    /// The wrapper went around the File seam and wrote a real file instead.
    pub bypassed: bool,
    chunks: Vec<u16>,
    chunk_i: usize,
    eintr_at: Vec<u32>,
    flush_eintr_at: Vec<u32>,
    err: Option<StreamErr>,
    flush_err: Option<IoKind>,
    create_err: Option<IoKind>,
    calls: u32,
    flush_calls: u32,
    consecutive_eintr: u8,
    err_fired: bool,
    limit: u32,
    max_bytes: usize,
    log: Rc<RefCell<Log>>,
}

pub struct SimSink {
    core: Rc<RefCell<SinkCore>>,
}

impl SimSink {
    pub fn new(cfg: &WriterCfg, expected_len: usize, log: Rc<RefCell<Log>>) -> (SimSink, Rc<RefCell<SinkCore>>) {
        let n_eintr = (cfg.eintr_at.len() + cfg.flush_eintr_at.len()) as u32;
        let limit = u32::try_from(4 * expected_len as u64).unwrap_or(u32::MAX).saturating_add(n_eintr).saturating_add(256);
        // an encoder that emits far more than the image can account for is running away
        let max_bytes = 8 * expected_len + (1 << 20);
        let core = Rc::new(RefCell::new(SinkCore {
            disk: Vec::new(),
            pending: Vec::new(),
            bypassed: false,
            chunks: cfg.chunks.clone(),
            chunk_i: 0,
            eintr_at: cfg.eintr_at.clone(),
            flush_eintr_at: cfg.flush_eintr_at.clone(),
            err: cfg.err,
            flush_err: cfg.flush_err,
            create_err: cfg.create_err,
            calls: 0,
            flush_calls: 0,
            consecutive_eintr: 0,
            err_fired: false,
            limit,
            max_bytes,
            log,
        }));
        (SimSink { core: core.clone() }, core)
    }

    /// The answer of `File::create` for this sink, when the scenario makes it fail.
    #[allow(dead_code)]
    fn create_fault(&self) -> Option<io::Error> {
        let c = self.core.borrow();
        let k = c.create_err?;
        let mut log = c.log.borrow_mut();
        log.ledger.bump(K::create_err);
        log.event('C', 0, 0, "create_err", k as usize);
        Some(k.to_std().into())
    }
}

impl Write for SimSink {
    fn write(&mut self, buf: &[u8]) -> io::Result<usize> {
        let c = &mut *self.core.borrow_mut();
        let call = c.calls;
        c.calls += 1;
        let log = c.log.clone();
        let mut log = log.borrow_mut();
        log.ledger.bump(K::write_calls);
        if call >= c.limit || c.disk.len() + c.pending.len() + buf.len() > c.max_bytes {
            log.event('W', call, buf.len(), "step_limit", 0);
            drop(log);
            std::panic::panic_any(StepLimit { seam: 'W', calls: call });
        }
        if buf.is_empty() {
            log.event('W', call, 0, "empty", 0);
            return Ok(0);
        }
        let mut byte_limit = usize::MAX;
        if let Some(e) = c.err {
            let due = match e.at {
                At::Call(n) => {
                    if e.sticky {
                        call >= n
                    } else {
                        call == n
                    }
                }
                At::Byte(b) => {
                    let b = b as usize;
                    let accepted = c.disk.len() + c.pending.len();
                    if accepted < b {
                        byte_limit = b - accepted;
                    }
                    accepted >= b && (e.sticky || !c.err_fired)
                }
            };
            if due {
                c.err_fired = true;
                c.consecutive_eintr = 0;
                if e.kind == IoKind::WriteZero {
                    log.ledger.bump(K::write_zero);
                    log.event('W', call, buf.len(), "zero", 0);
                    return Ok(0);
                }
                log.ledger.bump(K::write_err);
                log.event('W', call, buf.len(), "err", e.kind as usize);
                return Err(e.kind.to_std().into());
            }
        }
        if c.consecutive_eintr < MAX_CONSECUTIVE_EINTR && c.eintr_at.binary_search(&call).is_ok() {
            c.consecutive_eintr += 1;
            log.ledger.bump(K::eintr_write);
            log.event('W', call, buf.len(), "eintr", 0);
            return Err(io::ErrorKind::Interrupted.into());
        }
        c.consecutive_eintr = 0;
        let want = buf.len().min(byte_limit);
        let chunk = if c.chunks.is_empty() {
            0
        } else {
            let k = c.chunks[c.chunk_i % c.chunks.len()];
            c.chunk_i += 1;
            k as usize
        };
        let n = if chunk == 0 { want } else { want.min(chunk) };
        if n < buf.len() {
            log.ledger.bump(K::short_write);
        }
        c.pending.extend_from_slice(&buf[..n]);
        log.ledger.add(K::bytes_written, n as u64);
        log.event('W', call, buf.len(), "ok", n);
        Ok(n)
    }

    fn flush(&mut self) -> io::Result<()> {
        let c = &mut *self.core.borrow_mut();
        let call = c.flush_calls;
        c.flush_calls += 1;
        let log = c.log.clone();
        let mut log = log.borrow_mut();
        log.ledger.bump(K::flush_calls);
        if call >= c.limit {
            log.event('F', call, 0, "step_limit", 0);
            drop(log);
            std::panic::panic_any(StepLimit { seam: 'F', calls: call });
        }
        if let Some(k) = c.flush_err {
            log.ledger.bump(K::flush_err);
            log.event('F', call, 0, "err", k as usize);
            return Err(k.to_std().into());
        }
        if c.consecutive_eintr < MAX_CONSECUTIVE_EINTR && c.flush_eintr_at.binary_search(&call).is_ok() {
            c.consecutive_eintr += 1;
            log.ledger.bump(K::eintr_flush);
            log.event('F', call, 0, "eintr", 0);
            return Err(io::ErrorKind::Interrupted.into());
        }
        c.consecutive_eintr = 0;
        let n = c.pending.len();
        let moved = std::mem::take(&mut c.pending);
        c.disk.extend_from_slice(&moved);
        log.event('F', call, 0, "ok", n);
        Ok(())
    }
}

// ---------------------------------------------------------------------------
// Simulated disk
// ---------------------------------------------------------------------------

/// Applies storage faults in order. A fault whose position lies outside the file does
/// not fire and is not counted.
pub fn apply_disk_faults(bytes: &mut Vec<u8>, faults: &[DiskFault], log: &Rc<RefCell<Log>>) {
    let mut log = log.borrow_mut();
    for (i, f) in faults.iter().enumerate() {
        let len = bytes.len();
        match *f {
            DiskFault::Crash { keep } => {
                if (keep as usize) < len {
                    bytes.truncate(keep as usize);
                    log.ledger.bump(K::crash_write);
                    log.event('D', i as u32, len, "crash", keep as usize);
                }
            }
            DiskFault::Truncate { len: l } => {
                if (l as usize) < len {
                    bytes.truncate(l as usize);
                    log.ledger.bump(K::truncate);
                    log.event('D', i as u32, len, "truncate", l as usize);
                }
            }
            DiskFault::BitFlip { byte, bit } => {
                if (byte as usize) < len {
                    bytes[byte as usize] ^= 1 << (bit & 7);
                    log.ledger.bump(K::bitflip);
                    log.event('D', i as u32, byte as usize, "bitflip", (bit & 7) as usize);
                }
            }
            DiskFault::ZeroBlock { at, len: l } => {
                let (at, l) = (at as usize, l as usize);
                if at < len && l > 0 {
                    let end = (at + l).min(len);
                    if bytes[at..end].iter().any(|&b| b != 0) {
                        log.ledger.bump(K::zero_block);
                        log.event('D', i as u32, at, "zero_block", end - at);
                    }
                    bytes[at..end].iter_mut().for_each(|b| *b = 0);
                }
            }
            DiskFault::LostBlock { at, len: l } => {
                let (at, l) = (at as usize, l as usize);
                if at < len && l > 0 {
                    let end = (at + l).min(len);
                    bytes.drain(at..end);
                    log.ledger.bump(K::lost_block);
                    log.event('D', i as u32, at, "lost_block", end - at);
                }
            }
            DiskFault::DupBlock { at, len: l } => {
                let (at, l) = (at as usize, l as usize);
                if at < len && l > 0 {
                    let end = (at + l).min(len);
                    let blk = bytes[at..end].to_vec();
                    let tail = bytes.split_off(end);
                    bytes.extend_from_slice(&blk);
                    bytes.extend_from_slice(&tail);
                    log.ledger.bump(K::dup_block);
                    log.event('D', i as u32, at, "dup_block", end - at);
                }
            }
            DiskFault::CopyBlock { from, to, len: l } => {
                let (from, to, l) = (from as usize, to as usize, l as usize);
                if from < len && to < len && l > 0 && from != to {
                    let n = l.min(len - from).min(len - to);
                    let blk = bytes[from..from + n].to_vec();
                    if bytes[to..to + n] != blk[..] {
                        log.ledger.bump(K::copy_block);
                        log.event('D', i as u32, to, "copy_block", n);
                    }
                    bytes[to..to + n].copy_from_slice(&blk);
                }
            }
            DiskFault::GarbageBlock { at, len: l, seed } => {
                let (at, l) = (at as usize, l as usize);
                if at < len && l > 0 {
                    let end = (at + l).min(len);
                    let mut st = seed;
                    let mut changed = false;
                    for b in &mut bytes[at..end] {
                        let g = crate::rng::splitmix(&mut st) as u8;
                        changed |= *b != g;
                        *b = g;
                    }
                    if changed {
                        log.ledger.bump(K::garbage_block);
                        log.event('D', i as u32, at, "garbage_block", end - at);
                    }
                }
            }
        }
    }
}

// ---------------------------------------------------------------------------
// Adapter stacks: the std types users actually put around the library calls
// ---------------------------------------------------------------------------

/// Real code that consumes a reader. Generic so that the library function is
/// monomorphised for exactly the type a user would pass.
pub trait ReadConsumer {
    type Out;
    fn consume<R: Read>(self, r: R) -> Self::Out;
    /// The same operation through the library's path-based wrapper.
    fn consume_path(self, path: &std::path::Path) -> Self::Out;
}

/// Whether this binary was built with the guarded File seam of /repo.
pub const FILE_SEAM: bool = cfg!(retrofire_verif);

/// Path under which the simulated file is offered to the wrappers. It is a real path
/// in the scratch directory: a wrapper that goes around the seam (`std::fs::read`, an
/// explicit `std::fs::File`) then finds a real file with the same bytes there, fault-free,
/// instead of nothing.
#[allow(dead_code)]
pub fn sim_path() -> std::path::PathBuf {
    crate::core::scratch_file("simfile").unwrap_or_else(|| std::path::PathBuf::from("/simulated/file"))
}

#[cfg(retrofire_verif)]
/// One simulated file behind the `verif_fs` seam: a source for `File::open`, a sink for
/// `File::create`; any other path is declined (real file system).
struct OneFile {
    path: std::path::PathBuf,
    src: RefCell<Option<SimSource>>,
    sink: RefCell<Option<SimSink>>,
    /// For a wrapper that opens the file again (sniffing the format first, retrying after
    /// a failed open): every later open finds the same file behaving the same way from
    /// the start — the source is rewound, its schedule and faults replayed — so that what
    /// the oracles read off the source afterwards (bytes delivered, where a premature end
    /// was answered) describes the pass that produced the result.
    again: Option<Rc<RefCell<SrcCore>>>,
}

#[cfg(retrofire_verif)]
impl re::util::verif_fs::SimFs for OneFile {
    fn open(&self, path: &std::path::Path) -> Option<io::Result<Box<dyn Read>>> {
        if path != self.path {
            return None;
        }
        let first = self.src.borrow_mut().take();
        let s = match (first, &self.again) {
            (Some(s), _) => s,
            (None, Some(core)) => SimSource::rewound(core),
            (None, None) => return Some(Err(io::ErrorKind::NotFound.into())),
        };
        Some(match s.open_fault() {
            Some(e) => Err(e),
            None => Ok(Box::new(s) as Box<dyn Read>),
        })
    }
    fn create(&self, path: &std::path::Path) -> Option<io::Result<Box<dyn Write>>> {
        if path != self.path {
            return None;
        }
        Some(match self.sink.borrow_mut().take() {
            Some(s) => match s.create_fault() {
                Some(e) => Err(e),
                None => Ok(Box::new(s) as Box<dyn Write>),
            },
            None => Err(io::ErrorKind::PermissionDenied.into()),
        })
    }
}

/// Removes the simulated file system again, also when the wrapper panics.
#[cfg(retrofire_verif)]
struct Uninstall;
#[cfg(retrofire_verif)]
impl Drop for Uninstall {
    fn drop(&mut self) {
        re::util::verif_fs::install(None);
    }
}

pub fn drive_reader<C: ReadConsumer>(stack: RStack, src: SimSource, c: C) -> C::Out {
    match stack {
        RStack::Raw => c.consume(src),
        RStack::RawRef => {
            let mut src = src;
            c.consume(&mut src)
        }
        RStack::Buf { cap, by_ref: false } => c.consume(BufReader::with_capacity(cap as usize, src)),
        RStack::Buf { cap, by_ref: true } => {
            let mut r = BufReader::with_capacity(cap as usize, src);
            c.consume(&mut r)
        }
        RStack::Chain { split } => {
            let (a, b) = src.split(split as usize);
            c.consume(a.chain(b))
        }
        RStack::ChainBuf { split, cap } => {
            let (a, b) = src.split(split as usize);
            let mut r = BufReader::with_capacity(cap as usize, a.chain(b));
            c.consume(&mut r)
        }
        #[cfg(retrofire_verif)]
        RStack::Wrapper => {
            let path = sim_path();
            // the same bytes as a real file, for a wrapper that goes around the seam
            let _ = std::fs::write(&path, &src.core.borrow().data);
            let again = Some(src.core.clone());
            re::util::verif_fs::install(Some(Box::new(OneFile { path: path.clone(), src: RefCell::new(Some(src)), sink: RefCell::new(None), again })));
            let _guard = Uninstall;
            c.consume_path(&path)
        }
        // built without the hook (the tree under test does not compile with it): the
        // composition the wrapper uses, over the stub
        #[cfg(not(retrofire_verif))]
        RStack::Wrapper => {
            let mut r = BufReader::new(src);
            c.consume(&mut r)
        }
    }
}

pub trait WriteConsumer {
    type Out;
    fn consume<W: Write>(self, w: W) -> Self::Out;
    /// The same operation through the library's path-based wrapper.
    fn consume_path(self, path: &std::path::Path) -> Self::Out;
}

/// What the caller of a by-reference stack does after the library returned: flush,
/// retrying `Interrupted` like any well-behaved caller. `None` when the stack was
/// handed over by value (the library dropped it; nothing is left to flush).
pub type CallerFlush = Option<Result<(), io::ErrorKind>>;

fn flush_retrying(w: &mut impl Write) -> Result<(), io::ErrorKind> {
    loop {
        match w.flush() {
            Ok(()) => return Ok(()),
            Err(e) if e.kind() == io::ErrorKind::Interrupted => continue,
            Err(e) => return Err(e.kind()),
        }
    }
}

pub fn drive_writer<C: WriteConsumer>(stack: WStack, sink: SimSink, c: C) -> (C::Out, CallerFlush) {
    match stack {
        WStack::Raw { by_ref: false } => (c.consume(sink), None),
        WStack::Raw { by_ref: true } => {
            let mut sink = sink;
            let out = c.consume(&mut sink);
            (out, Some(flush_retrying(&mut sink)))
        }
        WStack::Buf { cap, by_ref: false } => (c.consume(BufWriter::with_capacity(cap as usize, sink)), None),
        WStack::Buf { cap, by_ref: true } => {
            let mut w = BufWriter::with_capacity(cap as usize, sink);
            let out = c.consume(&mut w);
            let fl = flush_retrying(&mut w);
            // The writer is dropped here; its implicit flush finds an empty buffer
            // when `fl` was Ok.
            (out, Some(fl))
        }
        WStack::Line { by_ref: false } => (c.consume(LineWriter::new(sink)), None),
        WStack::Line { by_ref: true } => {
            let mut w = LineWriter::new(sink);
            let out = c.consume(&mut w);
            let fl = flush_retrying(&mut w);
            (out, Some(fl))
        }
        #[cfg(retrofire_verif)]
        WStack::Wrapper => {
            let path = sim_path();
            let _ = std::fs::remove_file(&path);
            let core = sink.core.clone();
            re::util::verif_fs::install(Some(Box::new(OneFile { path: path.clone(), src: RefCell::new(None), sink: RefCell::new(Some(sink)), again: None })));
            let _guard = Uninstall;
            let out = c.consume_path(&path);
            // a wrapper that went around the seam wrote a real file: that is the disk then
            if let Ok(bytes) = std::fs::read(&path) {
                let mut c = core.borrow_mut();
                if c.calls == 0 && c.disk.is_empty() && c.pending.is_empty() {
                    c.disk = bytes;
                    c.bypassed = true;
                }
                let _ = std::fs::remove_file(&path);
            }
            (out, None)
        }
        #[cfg(not(retrofire_verif))]
        WStack::Wrapper => (c.consume(BufWriter::new(sink)), None),
    }
}
