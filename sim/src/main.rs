//! Driver: plans a batch, fans it out to crash-contained worker processes, folds the
//! results by job index, minimises and persists violations, writes evidence.
//!
//!   sim run <C13|C14> <quick|thorough> [--seed N] [--workers N] [--release-bin PATH] [--out DIR]
//!   sim replay <file>
//!   sim worker ...            (internal)
//!   sim replay-child <file>   (internal)

mod core;
mod driver;
mod gen;
mod obj;
mod pnm;
mod pnm_model;
mod rng;
mod seams;
mod sweep;

use crate::core::*;
use serde::{de::DeserializeOwned, Serialize};

/// What the driver needs to know about a property's simulation.
pub trait Property {
    const ID: &'static str;
    /// PRNG stream id, so that C13 and C14 never share run seeds.
    const STREAM: u64;
    type Scn: Serialize + DeserializeOwned + Clone;
    fn gen(seed: u64) -> (Self::Scn, &'static str, Option<String>);
    /// Rare, expensive scenarios (very large files); a fixed small number per batch.
    fn gen_jumbo(seed: u64) -> (Self::Scn, &'static str, Option<String>);
    /// Tiny files (every one-byte file, two-byte files behind a few telling first bytes),
    /// decoded both through the stream functions and through the path wrappers.
    fn tiny_job(bytes: Vec<u8>) -> Self::Scn;
    fn run(s: &Self::Scn, record: bool) -> RunResult;
    fn shrink(s: &Self::Scn) -> Vec<Self::Scn>;
    fn stacks(s: &Self::Scn) -> Vec<String>;
    fn sweep_base(seed: u64) -> sweep::SweepBase;
    fn sweep_job(b: &sweep::SweepBase, k: usize) -> (Self::Scn, &'static str);
    fn real_components() -> Vec<&'static str>;
    fn stub_components() -> Vec<&'static str>;
    fn not_run() -> Vec<&'static str>;
    fn rule() -> &'static str;
}

pub struct C13;
impl Property for C13 {
    const ID: &'static str = "C13";
    const STREAM: u64 = 13;
    type Scn = pnm::PnmScenario;
    fn gen(seed: u64) -> (Self::Scn, &'static str, Option<String>) {
        pnm::gen_scenario(seed)
    }
    fn gen_jumbo(seed: u64) -> (Self::Scn, &'static str, Option<String>) {
        pnm::gen_jumbo(seed)
    }
    fn tiny_job(bytes: Vec<u8>) -> Self::Scn {
        pnm::PnmScenario { work: pnm::PnmWork::Raw { bytes }, writer: seams::WriterCfg::plain(), disk: vec![], reader: seams::ReaderCfg::plain(), via_path: true }
    }
    fn run(s: &Self::Scn, record: bool) -> RunResult {
        pnm::run(s, record)
    }
    fn shrink(s: &Self::Scn) -> Vec<Self::Scn> {
        pnm::shrink(s)
    }
    fn stacks(s: &Self::Scn) -> Vec<String> {
        pnm::stacks(s)
    }
    fn sweep_base(seed: u64) -> sweep::SweepBase {
        pnm::sweep_base(seed)
    }
    fn sweep_job(b: &sweep::SweepBase, k: usize) -> (Self::Scn, &'static str) {
        pnm::sweep_job(b, k)
    }
    fn real_components() -> Vec<&'static str> {
        vec![
            "retrofire_core::util::pnm::{write_ppm, read_pnm, parse_pnm, Header::parse, Header::write, parse_num}",
            "retrofire_core::util::buf::{Buf2::new_from, Inner::new, slice, slice_mut, Slice2::new, rows, data, AsSlice2 impls}",
            "std::io::{BufReader, BufWriter, LineWriter, Chain, Bytes, Write::write_all, Write::write_fmt}",
            if crate::seams::FILE_SEAM { "retrofire_core::util::pnm::{load_pnm, save_ppm} (through the guarded File seam, and on the real file system fault-free)" } else { "retrofire_core::util::pnm::{load_pnm, save_ppm} (real file system, fault-free only)" },
        ]
    }
    fn stub_components() -> Vec<&'static str> {
        vec![
            "SimSink (Write)",
            "SimSource (Read)",
            "simulated disk (byte vector + storage faults)",
            "foreign PNM writer (harness)",
            "reference PNM decoder (harness)",
        ]
    }
    fn not_run() -> Vec<&'static str> {
        if crate::seams::FILE_SEAM {
            vec!["nothing the property anchors: load_pnm / save_ppm run under simulation through the guarded File seam (wrapper stacks; File::open / File::create can fail) and, fault-free, on the real file system (oracle W); std::fs::File itself is replaced by the seam's stand-in in those runs"]
        } else {
            vec!["load_pnm / save_ppm are not run under simulation (the tree did not compile with the File seam): the same BufReader/BufWriter compositions are simulated over the stubs, and the wrappers themselves are cross-checked against the stream functions on the real file system, fault-free, in ~2.5% of search runs (oracle W)"]
        }
    }
    fn rule() -> &'static str {
        "Seeded search: job i of the batch is scenario gen(mix(VERIF_SEED, 13, i)) = (workload: image written by the real write_ppm through a simulated sink | file spelled by the harness's foreign writer | odd-header bytes) x (writer stack, chunking, interruptions, write/flush error) x (0-3 storage faults) x (reader stack, chunking, interruptions, read error / early EOF). Sweeps: one fault at every position of sampled small base files (every truncation length, bit, block position for sizes 1/3/8, garbage pair, span loss/duplication, read-error and early-EOF byte). A run is non-trivial when at least one benign or destructive behaviour actually fired (ledger), i.e. the stubs did not behave like a plain Vec/&[u8]; distinct = distinct hashes of the event log (every seam call: seq, call#, requested, decision, bytes; every disk fault) plus stored length."
    }
}

pub struct C14;
impl Property for C14 {
    const ID: &'static str = "C14";
    const STREAM: u64 = 14;
    type Scn = obj::ObjScenario;
    fn gen(seed: u64) -> (Self::Scn, &'static str, Option<String>) {
        obj::gen_scenario(seed)
    }
    fn gen_jumbo(seed: u64) -> (Self::Scn, &'static str, Option<String>) {
        obj::gen_jumbo(seed)
    }
    fn tiny_job(bytes: Vec<u8>) -> Self::Scn {
        obj::ObjScenario { text: bytes, disk: vec![], reader: seams::ReaderCfg::plain(), via_path: true }
    }
    fn run(s: &Self::Scn, record: bool) -> RunResult {
        obj::run(s, record)
    }
    fn shrink(s: &Self::Scn) -> Vec<Self::Scn> {
        obj::shrink(s)
    }
    fn stacks(s: &Self::Scn) -> Vec<String> {
        obj::stacks(s)
    }
    fn sweep_base(seed: u64) -> sweep::SweepBase {
        obj::sweep_base(seed)
    }
    fn sweep_job(b: &sweep::SweepBase, k: usize) -> (Self::Scn, &'static str) {
        obj::sweep_job(b, k)
    }
    fn real_components() -> Vec<&'static str> {
        vec![
            "retrofire_geom::io::{read_obj, parse_obj, parse_face, parse_indices, parse_index, parse_point, parse_vector, parse_texcoord, parse_normal}",
            "retrofire_core::geom::mesh::{Mesh::new, Mesh::into_builder, Builder::build}",
            "std::io::{BufReader, Chain, Bytes}",
            if crate::seams::FILE_SEAM { "retrofire_geom::io::load_obj (through the guarded File seam, and on the real file system fault-free)" } else { "retrofire_geom::io::load_obj (real file system, fault-free only)" },
        ]
    }
    fn stub_components() -> Vec<&'static str> {
        vec![
            "SimSource (Read)",
            "simulated disk (byte vector + storage faults)",
            "OBJ writer (harness: random meshes, layouts, index forms)",
            "reference OBJ reader (harness)",
        ]
    }
    fn not_run() -> Vec<&'static str> {
        if crate::seams::FILE_SEAM {
            vec!["nothing the property anchors: load_obj runs under simulation through the guarded File seam (wrapper stacks; File::open can fail) and, fault-free, on the real file system (oracle W); std::fs::File itself is replaced by the seam's stand-in in those runs"]
        } else {
            vec!["load_obj is not run under simulation (the tree did not compile with the File seam): the same `&mut BufReader` composition is simulated over the stub, and load_obj itself is cross-checked against parse_obj on the real file system, fault-free, in ~2.5% of search runs (oracle W)"]
        }
    }
    fn rule() -> &'static str {
        "Seeded search: job i is scenario gen(mix(VERIF_SEED, 14, i)) = (OBJ text written by the harness from a random mesh: layouts, index forms, number spellings; ~12% near-miss exporter output) x (0-3 storage faults) x (reader stack, chunking, interruptions, read error / early EOF). Sweeps: one fault at every position of sampled small base files (every truncation length, bit, block position for sizes 1/3/8, garbage pair, whole-line loss/duplication, read-error and early-EOF byte). A run is non-trivial when at least one benign or destructive behaviour actually fired (ledger); distinct = distinct hashes of the event log (every seam call and disk fault) plus stored length."
    }
}

fn usage() -> ! {
    eprintln!("usage: sim run <C13|C14> <quick|thorough> [--seed N] [--workers N] [--release-bin PATH] [--out DIR]\n       sim replay <file> [--release-bin PATH]");
    std::process::exit(2)
}

fn main() {
    install_panic_hook();
    let args: Vec<String> = std::env::args().collect();
    let code = match args.get(1).map(String::as_str) {
        Some("run") => match args.get(2).map(String::as_str) {
            Some("C13") => driver::run::<C13>(&args[3..]),
            Some("C14") => driver::run::<C14>(&args[3..]),
            _ => usage(),
        },
        Some("worker") => match args.get(2).map(String::as_str) {
            Some("C13") => driver::worker::<C13>(&args[3..]),
            Some("C14") => driver::worker::<C14>(&args[3..]),
            _ => usage(),
        },
        Some("minimise") => match args.get(2).map(String::as_str) {
            Some("C13") => driver::minimise::<C13>(&args[3..]),
            Some("C14") => driver::minimise::<C14>(&args[3..]),
            _ => usage(),
        },
        Some("history-run") => match args.get(2).map(String::as_str) {
            Some("C13") => driver::history_run::<C13>(&args[3..]),
            Some("C14") => driver::history_run::<C14>(&args[3..]),
            _ => usage(),
        },
        Some("replay") => driver::replay(&args[2..]),
        Some("replay-child") => driver::replay_child(&args[2..]),
        _ => usage(),
    };
    std::process::exit(code)
}
