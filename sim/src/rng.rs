//! The only source of randomness in the simulator: SplitMix64 for seeding and
//! xoshiro256** for the per-run stream. Nothing here reads a clock, an address or
//! the environment, so one integer decides a whole run.

pub fn splitmix(state: &mut u64) -> u64 {
    *state = state.wrapping_add(0x9E37_79B9_7F4A_7C15);
    let mut z = *state;
    z = (z ^ (z >> 30)).wrapping_mul(0xBF58_476D_1CE4_E5B9);
    z = (z ^ (z >> 27)).wrapping_mul(0x94D0_49BB_1331_11EB);
    z ^ (z >> 31)
}

/// Seed of run `index` of stream `stream` under `VERIF_SEED = seed`.
pub fn mix(seed: u64, stream: u64, index: u64) -> u64 {
    let mut s = seed ^ 0xA076_1D64_78BD_642F;
    let a = splitmix(&mut s);
    let mut t = a ^ stream.wrapping_mul(0xE703_7ED1_A0B4_28DB);
    let b = splitmix(&mut t);
    let mut u = b ^ index.wrapping_mul(0x8EBC_6AF0_9C88_C6E3);
    splitmix(&mut u)
}

#[derive(Clone, Debug)]
pub struct Rng {
    s: [u64; 4],
}

impl Rng {
    pub fn new(seed: u64) -> Self {
        let mut sm = seed;
        let s = [
            splitmix(&mut sm),
            splitmix(&mut sm),
            splitmix(&mut sm),
            splitmix(&mut sm),
        ];
        Rng { s }
    }

    pub fn u64(&mut self) -> u64 {
        let s = &mut self.s;
        let r = s[1].wrapping_mul(5).rotate_left(7).wrapping_mul(9);
        let t = s[1] << 17;
        s[2] ^= s[0];
        s[3] ^= s[1];
        s[1] ^= s[2];
        s[0] ^= s[3];
        s[2] ^= t;
        s[3] = s[3].rotate_left(45);
        r
    }

    /// Uniform in `0..n` (`n > 0`). Slight modulo bias is irrelevant here.
    pub fn below(&mut self, n: u64) -> u64 {
        debug_assert!(n > 0);
        self.u64() % n
    }

    /// Uniform in `lo..=hi`.
    pub fn range(&mut self, lo: u64, hi: u64) -> u64 {
        debug_assert!(lo <= hi);
        lo + self.below(hi - lo + 1)
    }

    pub fn usize(&mut self, lo: usize, hi: usize) -> usize {
        self.range(lo as u64, hi as u64) as usize
    }

    /// True with probability `num / den`.
    pub fn chance(&mut self, num: u64, den: u64) -> bool {
        self.below(den) < num
    }

    pub fn pick<'a, T>(&mut self, xs: &'a [T]) -> &'a T {
        &xs[self.below(xs.len() as u64) as usize]
    }

    pub fn byte(&mut self) -> u8 {
        self.u64() as u8
    }

    /// A number biased toward small values: uniform exponent, then uniform below it.
    pub fn small(&mut self, max: u64) -> u64 {
        if max == 0 {
            return 0;
        }
        let bits = 64 - max.leading_zeros() as u64;
        let b = self.range(0, bits);
        let cap = if b >= 63 { u64::MAX } else { (1u64 << b).min(max) };
        self.range(0, cap.min(max))
    }
}

/// FNV-1a, used for event-log hashes (stable across runs, processes and builds).
#[derive(Clone, Copy, Debug)]
pub struct Fnv(pub u64);

impl Default for Fnv {
    fn default() -> Self {
        Fnv(0xcbf2_9ce4_8422_2325)
    }
}

impl Fnv {
    pub fn byte(&mut self, b: u8) {
        self.0 ^= b as u64;
        self.0 = self.0.wrapping_mul(0x0000_0100_0000_01B3);
    }
    pub fn bytes(&mut self, bs: &[u8]) {
        for &b in bs {
            self.byte(b);
        }
    }
    pub fn u64(&mut self, v: u64) {
        self.bytes(&v.to_le_bytes());
    }
}
