#!/bin/bash
# usage: tools/run_against.sh <patch.diff> <C13|C14> [quick|thorough]
# Applies a change to /repo's working tree, runs the property's check against it, undoes the
# change. Evidence and replay files of such runs go to a scratch directory, not to
# /verif/evidence (which must only ever describe the tree as it is).
set -u
patch=$(readlink -f "$1"); prop=$2; tier=${3:-quick}
cd /verif
if [ -n "$(git -C /repo status --porcelain --untracked-files=no)" ]; then echo "ERROR /repo working tree is not clean"; exit 2; fi
out=/verif/work/against-$$; mkdir -p "$out"; cp known_findings.json "$out/" 2>/dev/null
trap 'git -C /repo checkout -- . ; rm -rf "$out"' EXIT
git -C /repo apply "$patch" || { echo "ERROR patch does not apply"; exit 2; }
./check build >/dev/null || { echo "ERROR harness build failed with the change applied"; echo "exit=2"; exit 2; }
res=$(/verif/target/debug/sim run "$prop" "$tier" --release-bin /verif/target/release/sim --out "$out" 2>&1); rc=$?
echo "$res" | grep -E "^(violation|VIOLATION|KNOWN|ERROR|runs=)" | cut -c1-260
echo "exit=$rc"
exit $rc
