#!/bin/bash
# usage: tools/run_against.sh <patch.diff> <C13|C14> [quick|thorough]
# Applies a change to /repo's working tree, runs the registered check, undoes the change.
set -u
patch=$(readlink -f "$1"); prop=$2; tier=${3:-quick}
cd /verif
if [ -n "$(git -C /repo status --porcelain --untracked-files=no)" ]; then echo "ERROR /repo working tree is not clean"; exit 2; fi
trap 'git -C /repo checkout -- . ' EXIT
git -C /repo apply "$patch" || { echo "ERROR patch does not apply"; exit 2; }
out=$(./check "$prop" "$tier" 2>&1); rc=$?
echo "$out" | grep -E "^(violation|VIOLATION|KNOWN|ERROR|runs=)" | cut -c1-260
echo "exit=$rc"
exit $rc
