//! Exercises the clauses of the OBJ parsing property (C14).
//! Passes on the unmodified tree and on every behaviour-preserving change.

use std::io::{self, ErrorKind, Read};

use re::geom::{mesh::Builder, Tri};
use retrofire_geom::io::{parse_obj, read_obj};

/// A well-formed file: faces before and after their vertices, all four
/// index forms (one form per face), comments (one ending in a backslash),
/// blank lines, indentation with spaces and tabs, exponent notation,
/// negative zero, no trailing newline.
const GOOD: &[u8] = b"# a tetrahedron and a bit\n\
\n\
f 1 2 3\n\
   f 1/1 2/2 4/3\n\
#comment without space \\\n\
v 0 0 0\n\
\tv 1.5 -2.25 3e0\n\
v -0.0 1e-3 -2.5E+2\n\
\n\
  # indented comment\n\
vt 0.0 0.0\n\
vt 1.0 0.5\n\
vt 0.25 1.0\n\
vn 0.0 0.0 1.0\n\
f 1//1 3//2 4//1\n\
v 16777217 0.1 1.0e10\n\
vn 1.0 -1.0 0.5\n\
\t f 2/3/2 3/1/1 4/2/2\n\
v 7 8 9\n\
f 5 4 1";

fn good_verts() -> Vec<[f32; 3]> {
    vec![
        [0.0, 0.0, 0.0],
        [1.5, -2.25, 3.0],
        [-0.0, 1e-3, -2.5e2],
        [16777217.0, 0.1, 1.0e10],
        [7.0, 8.0, 9.0],
    ]
}
fn good_faces() -> Vec<Tri<usize>> {
    vec![
        Tri([0, 1, 2]),
        Tri([0, 1, 3]),
        Tri([0, 2, 3]),
        Tri([1, 2, 3]),
        Tri([4, 3, 0]),
    ]
}

type Plain = (Vec<Tri<usize>>, Vec<[u32; 3]>);

/// Builds the mesh (must not panic) and returns faces and coordinate bits.
fn plain(b: Builder<()>) -> Plain {
    let m = b.build();
    for Tri(vs) in &m.faces {
        assert!(vs.iter().all(|&i| i < m.verts.len()));
    }
    let vs = m
        .verts
        .iter()
        .map(|v| [v.pos.x(), v.pos.y(), v.pos.z()].map(f32::to_bits))
        .collect();
    (m.faces, vs)
}

fn expected() -> Plain {
    let vs = good_verts()
        .into_iter()
        .map(|v| v.map(f32::to_bits))
        .collect();
    (good_faces(), vs)
}

/// Returns one byte per call and `Interrupted` on every seventh call.
struct Trickle<'a> {
    data: &'a [u8],
    calls: usize,
}
impl Read for Trickle<'_> {
    fn read(&mut self, buf: &mut [u8]) -> io::Result<usize> {
        self.calls += 1;
        if self.calls % 7 == 0 {
            return Err(ErrorKind::Interrupted.into());
        }
        if buf.is_empty() || self.data.is_empty() {
            return Ok(0);
        }
        buf[0] = self.data[0];
        self.data = &self.data[1..];
        Ok(1)
    }
}

#[test]
fn well_formed_parses_to_listed_mesh() {
    assert_eq!(plain(parse_obj(GOOD.iter().copied()).unwrap()), expected());

    // With a trailing newline
    let mut nl = GOOD.to_vec();
    nl.push(b'\n');
    assert_eq!(plain(parse_obj(nl).unwrap()), expected());
}

#[test]
fn well_formed_through_trickling_interrupted_reader() {
    let r = Trickle { data: GOOD, calls: 0 };
    assert_eq!(plain(read_obj(r).unwrap()), expected());
    // Whole slice at once
    assert_eq!(plain(read_obj(GOOD).unwrap()), expected());
}

#[test]
fn empty_and_vertices_only() {
    let (f, v) = plain(parse_obj(*b"").unwrap());
    assert!(f.is_empty() && v.is_empty());
    let (f, v) = plain(parse_obj(*b"v 1 2 3\nv 4 5 6\n").unwrap());
    assert!(f.is_empty());
    assert_eq!(v.len(), 2);
}

#[test]
fn malformed_is_error_or_buildable() {
    let inputs: &[&[u8]] = &[
        b"f",
        b"f 1 2",
        b"f 1 2 3",
        b"f 0 1 2\nv 0 0 0\nv 0 0 0",
        b"f 1 2 4\nv 0 0 0\nv 1 0 0\nv 0 1 0\nf 1 2 3",
        b"v 0 0 0\nv 1 0 0\nv 0 1 0\nf 3 2 1\nf 1 2 9",
        b"f 1/9 1/9 1/9\nv 0 0 0\nvt 0 0",
        b"f 1//2 1//2 1//2\nv 0 0 0\nvn 0 0 1",
        b"f 1/1/1 1/1/5 1/1/1\nv 0 0 0\nvn 0 0 1\nvt 0 0",
        b"f -1 -2 -3\nv 0 0 0\nv 1 0 0\nv 0 1 0",
        b"f 1/ 1/ 1/\nv 0 0 0",
        b"f 1/1/1/1 1/1/1/1 1/1/1/1\nv 0 0 0\nvt 0 0\nvn 0 0 1",
        b"f 18446744073709551616 1 1\nv 0 0 0",
        b"f 18446744073709551615 1 1\nv 0 0 0",
        b"f 4294967297 1 1\nv 0 0 0",
        b"f 1 1 1 junk\nv 0 0 0",
        b"v 1 2",
        b"v a b c",
        b"v 1 2 3 junk",
        b"v 1 2 \\\n3",
        b"v 1 2 3 \\",
        b"v 1e999 nan -inf",
        b"vt 1",
        b"vn 1 2",
        b"xyz 1 2 3",
        b"\xef\xbb\xbfv 1 2 3",
        b"\xff\xfe\x00v\x001",
        b"v 1 2 3\rf 1 1 1\r",
        b"f 1 2 3\n\n\n",
    ];
    for &inp in inputs {
        if let Ok(b) = parse_obj(inp.iter().copied()) {
            plain(b);
        }
        if let Ok(b) = read_obj(Trickle { data: inp, calls: 0 }) {
            plain(b);
        }
        // Every prefix, too
        for n in 0..inp.len() {
            if let Ok(b) = parse_obj(inp[..n].iter().copied()) {
                plain(b);
            }
        }
    }
    // Every prefix of the good file is an error or buildable
    for n in 0..GOOD.len() {
        if let Ok(b) = parse_obj(GOOD[..n].iter().copied()) {
            plain(b);
        }
    }
}

/// Serves `data` in chunks of at most `chunk` bytes, then does `then`.
struct Script<'a> {
    data: &'a [u8],
    chunk: usize,
    /// What to do when `data` runs out, once; afterwards serves `rest`.
    then: Option<io::Result<usize>>,
    rest: &'a [u8],
    /// If set, the condition in `then` is permanent
    sticky: Option<ErrorKind>,
}
impl Read for Script<'_> {
    fn read(&mut self, buf: &mut [u8]) -> io::Result<usize> {
        if buf.is_empty() {
            return Ok(0);
        }
        if self.data.is_empty() {
            if let Some(k) = self.sticky {
                return Err(k.into());
            }
            if let Some(t) = self.then.take() {
                self.data = self.rest;
                self.rest = &[];
                return t;
            }
            return Ok(0);
        }
        let n = buf.len().min(self.chunk).min(self.data.len());
        buf[..n].copy_from_slice(&self.data[..n]);
        self.data = &self.data[n..];
        Ok(n)
    }
}

#[test]
fn failing_reader_gives_error() {
    for chunk in [1, 3, 4096] {
        for cut in [0, 1, 10, 57, GOOD.len() - 1, GOOD.len()] {
            let r = Script {
                data: &GOOD[..cut],
                chunk,
                then: None,
                rest: &[],
                sticky: Some(ErrorKind::BrokenPipe),
            };
            let res = read_obj(r);
            assert!(res.is_err(), "cut {cut} chunk {chunk}: {res:?}");
        }
    }
}

#[test]
fn transient_error_gives_error_or_whole_mesh() {
    for kind in [ErrorKind::BrokenPipe, ErrorKind::WouldBlock, ErrorKind::TimedOut]
    {
        for chunk in [1, 5, 4096] {
            for cut in [0, 9, 40, 100, GOOD.len()] {
                let r = Script {
                    data: &GOOD[..cut],
                    chunk,
                    then: Some(Err(kind.into())),
                    rest: &GOOD[cut..],
                    sticky: None,
                };
                if let Ok(b) = read_obj(r) {
                    assert_eq!(plain(b), expected(), "{kind:?} {chunk} {cut}");
                }
            }
        }
    }
}

#[test]
fn premature_eof_gives_error_prefix_or_whole() {
    for chunk in [1, 4, 4096] {
        for cut in 0..GOOD.len() {
            let r = Script {
                data: &GOOD[..cut],
                chunk,
                then: Some(Ok(0)),
                rest: &GOOD[cut..],
                sticky: None,
            };
            let Ok(b) = read_obj(r) else { continue };
            let got = plain(b);
            let prefix = parse_obj(GOOD[..cut].iter().copied()).ok().map(plain);
            assert!(
                got == expected() || Some(&got) == prefix.as_ref(),
                "hybrid mesh at cut {cut} chunk {chunk}: {got:?}"
            );
        }
    }
}
