//! C14 — OBJ parsing is total and faithful, under every legal behaviour of the
//! `Read` it pulls from and every storage fault the file may have met.

use std::io::Read;

use serde::{Deserialize, Serialize};

use re::geom::mesh::Builder;
use re_geom::io::{parse_obj, read_obj};

use crate::core::*;
use crate::gen::*;
use crate::rng::Rng;
use crate::seams::*;

// ---------------------------------------------------------------------------
// Scenario
// ---------------------------------------------------------------------------

#[derive(Serialize, Deserialize, Clone, Debug, PartialEq)]
pub struct ObjScenario {
    /// The file as the (harness) writer produced it.
    #[serde(with = "escaped")]
    pub text: Vec<u8>,
    /// Storage faults between writer and reader, applied in order.
    pub disk: Vec<DiskFault>,
    pub reader: ReaderCfg,
    /// Additionally run `load_obj` against the real file system, fault-free, and compare
    /// it with `parse_obj` over the same bytes.
    #[serde(default)]
    pub via_path: bool,
}

/// What a decode produced, in comparable form.
#[derive(Clone, Debug, PartialEq, Eq)]
pub enum ObjOut {
    Ok { verts: Vec<[u32; 3]>, tris: Vec<[usize; 3]> },
    Err(String),
}

impl ObjOut {
    fn brief(&self) -> String {
        match self {
            ObjOut::Ok { verts, tris } => {
                let vs: Vec<[f32; 3]> = verts.iter().take(6).map(|v| v.map(f32::from_bits)).collect();
                format!(
                    "Ok({} verts {:?}{}, {} tris {:?}{})",
                    verts.len(),
                    vs,
                    if verts.len() > 6 { "…" } else { "" },
                    tris.len(),
                    &tris[..tris.len().min(6)],
                    if tris.len() > 6 { "…" } else { "" }
                )
            }
            ObjOut::Err(e) => format!("Err({e})"),
        }
    }
}

fn err_class(e: &re_geom::io::Error) -> String {
    use re_geom::io::Error::*;
    match e {
        Io(e) => format!("Io({:?})", e.kind()),
        other => format!("{other:?}"),
    }
}

// ---------------------------------------------------------------------------
// Reference model: a conservative OBJ reader written from the format description
// in the property, not from retrofire's code. Accept only inside that grammar.
// ---------------------------------------------------------------------------

#[derive(Clone, Debug, PartialEq, Eq)]
pub enum RefObj {
    /// `soft`: some numeral is spelled in a way a reader may refuse; then `Ok` must be this
    /// mesh but `Err` is tolerated.
    Accept { verts: Vec<[u32; 3]>, tris: Vec<[usize; 3]>, soft: bool },
    /// Every line is inside the grammar, but some face refers to a vertex (or
    /// attribute) that the file does not define. `tris` are the listed faces as written
    /// (zero-based, possibly out of range). There is no faithful mesh for such a file:
    /// an error is right, and an `Ok` must at least not invent a face.
    Dangling { verts: Vec<[u32; 3]>, tris: Vec<[usize; 3]> },
    /// Outside the grammar the property spells out: no opinion on the result.
    Unsure(&'static str),
}

fn is_number(tok: &[u8]) -> bool {
    // [-+]? d+ (. d*)? ([eE] [-+]? d+)?
    let mut i = 0;
    let n = tok.len();
    if i < n && (tok[i] == b'-' || tok[i] == b'+') {
        i += 1;
    }
    let d0 = i;
    while i < n && tok[i].is_ascii_digit() {
        i += 1;
    }
    if i == d0 {
        return false;
    }
    if i < n && tok[i] == b'.' {
        i += 1;
        while i < n && tok[i].is_ascii_digit() {
            i += 1;
        }
    }
    if i < n && (tok[i] == b'e' || tok[i] == b'E') {
        i += 1;
        if i < n && (tok[i] == b'-' || tok[i] == b'+') {
            i += 1;
        }
        let e0 = i;
        while i < n && tok[i].is_ascii_digit() {
            i += 1;
        }
        if i == e0 {
            return false;
        }
    }
    i == n
}

/// The value of a numeral inside the grammar, and whether its spelling is one a reader
/// may defensibly refuse (an explicit `+`, a dot with nothing after it).
fn ref_float(tok: &[u8]) -> Option<(u32, bool)> {
    if !is_number(tok) {
        return None;
    }
    let mantissa_end = tok.iter().position(|&b| b == b'e' || b == b'E').unwrap_or(tok.len());
    let soft = tok[0] == b'+' || tok[mantissa_end - 1] == b'.';
    // Trusted base: core's correctly rounded decimal -> f32 conversion.
    std::str::from_utf8(tok).ok()?.parse::<f32>().ok().map(|x| (x.to_bits(), soft))
}

/// One-based index without sign or leading zero, small enough to be meaningful.
fn ref_index(tok: &[u8]) -> Option<usize> {
    if tok.is_empty() || tok.len() > 18 || tok[0] == b'0' || !tok.iter().all(u8::is_ascii_digit) {
        return None;
    }
    std::str::from_utf8(tok).ok()?.parse::<usize>().ok()
}

pub fn ref_obj(bytes: &[u8]) -> RefObj {
    use RefObj::*;
    let mut verts = vec![];
    let mut soft = false;
    let mut tris: Vec<[usize; 3]> = vec![];
    let (mut nvt, mut nvn) = (0usize, 0usize);
    let (mut max_vt, mut max_vn) = (0usize, 0usize);
    for line in bytes.split(|&b| b == b'\n') {
        let mut toks = line.split(|&b| b == b' ' || b == b'\t').filter(|t| !t.is_empty());
        let Some(item) = toks.next() else {
            if line.iter().any(|&b| b != b' ' && b != b'\t') {
                return Unsure("blank line with bytes other than blank/TAB");
            }
            continue;
        };
        if item[0] == b'#' {
            // a whole-line comment may hold any bytes at all
            continue;
        }
        if line.iter().any(|&b| b >= 0x80 || (b < 0x20 && b != b'\t')) {
            return Unsure("data line with a byte outside printable ASCII / TAB");
        }
        let args: Vec<&[u8]> = toks.collect();
        match item {
            b"v" => {
                if args.len() != 3 {
                    return Unsure("v without exactly three coordinates");
                }
                let mut p = [0u32; 3];
                for (k, a) in args.iter().enumerate() {
                    match ref_float(a) {
                        Some((x, sf)) => {
                            p[k] = x;
                            soft |= sf;
                        }
                        None => return Unsure("coordinate outside the number grammar"),
                    }
                }
                verts.push(p);
            }
            b"vt" => {
                if !(args.len() == 2 || args.len() == 3) || args.iter().any(|a| ref_float(a).is_none()) {
                    return Unsure("vt outside grammar");
                }
                // a third texture coordinate is legal OBJ, but the module documentation
                // speaks of two: refusing it is defensible
                soft |= args.len() == 3 || args.iter().any(|a| ref_float(a).map_or(false, |r| r.1));
                nvt += 1;
            }
            b"vn" => {
                if args.len() != 3 || args.iter().any(|a| ref_float(a).is_none()) {
                    return Unsure("vn outside grammar");
                }
                soft |= args.iter().any(|a| ref_float(a).map_or(false, |r| r.1));
                nvn += 1;
            }
            b"f" => {
                if args.len() != 3 {
                    return Unsure("face that is not a triangle");
                }
                let mut tri = [0usize; 3];
                let mut form = None;
                for (k, a) in args.iter().enumerate() {
                    let parts: Vec<&[u8]> = a.split(|&b| b == b'/').collect();
                    let f = match parts.as_slice() {
                        [v] => (ref_index(v), None, None, 0),
                        [v, t] => (ref_index(v), Some(ref_index(t)), None, 1),
                        [v, t, n] if t.is_empty() => (ref_index(v), None, Some(ref_index(n)), 2),
                        [v, t, n] => (ref_index(v), Some(ref_index(t)), Some(ref_index(n)), 3),
                        _ => return Unsure("index with more than two slashes"),
                    };
                    if *form.get_or_insert(f.3) != f.3 {
                        return Unsure("mixed index forms within one face");
                    }
                    let Some(v) = f.0 else { return Unsure("vertex index outside grammar") };
                    tri[k] = v - 1;
                    if let Some(t) = f.1 {
                        let Some(t) = t else { return Unsure("texcoord index outside grammar") };
                        max_vt = max_vt.max(t);
                    }
                    if let Some(n) = f.2 {
                        let Some(n) = n else { return Unsure("normal index outside grammar") };
                        max_vn = max_vn.max(n);
                    }
                }
                tris.push(tri);
            }
            _ => return Unsure("item other than v/vt/vn/f/#"),
        }
    }
    if tris.iter().flatten().any(|&i| i >= verts.len()) || max_vt > nvt || max_vn > nvn {
        return Dangling { verts, tris };
    }
    Accept { verts, tris, soft }
}

// ---------------------------------------------------------------------------
// Workload: the harness "writer" — random meshes in every layout the property lists
// ---------------------------------------------------------------------------

pub struct GenObj {
    pub text: Vec<u8>,
    pub verts: Vec<[u32; 3]>,
    pub tris: Vec<[usize; 3]>,
    /// Byte offsets worth aiming faults at (line starts, token boundaries).
    pub hot: Vec<usize>,
    /// `(start, len)` of every line including its newline.
    pub lines: Vec<(usize, usize)>,
    pub mutated: bool,
}

/// A numeral a hair above or below the midpoint of two adjacent f32 values, written
/// with all its digits: converting it via f64 (double rounding) lands on the wrong
/// neighbour about half the time, converting it directly does not.
fn midpoint_token(rng: &mut Rng) -> String {
    let bits = ((rng.range(100, 150) as u32) << 23) | (rng.u64() as u32 & 0x007f_ffff);
    let a = f32::from_bits(bits);
    let b = f32::from_bits(bits + 1);
    let m = (a as f64 + b as f64) / 2.0;
    let mut s = format!("{m:.80}");
    while s.ends_with('0') {
        s.pop();
    }
    if rng.chance(1, 2) {
        s.push('1');
    } else {
        // just below: decrement the last (non-zero) digit, then nines
        let last = s.pop().unwrap();
        if let Some(d) = last.to_digit(10).filter(|&d| d > 0) {
            s.push(char::from_digit(d - 1, 10).unwrap());
            s.push_str("9999");
        } else {
            s.push(last);
        }
    }
    if rng.chance(1, 2) {
        s.insert(0, '-');
    }
    s
}

fn num_token(rng: &mut Rng) -> String {
    if rng.chance(1, 40) {
        return midpoint_token(rng);
    }
    let mag = match rng.below(6) {
        0 => 1.0,
        1 => 10.0,
        2 => 1000.0,
        3 => 0.01,
        _ => 100.0,
    };
    let x = ((rng.u64() as i64 as f64) / (i64::MAX as f64)) * mag;
    if wide() && rng.chance(1, 8) {
        // a very long but perfectly legal numeral
        return match rng.below(3) {
            0 => format!("{:.*}", rng.usize(30, 300), x),
            1 => format!("{}{:.3}", "0".repeat(rng.usize(20, 280)), x.abs()),
            _ => format!("{:.3}e{}{}", x / mag, "0".repeat(rng.usize(10, 270)), rng.range(0, 3)),
        };
    }
    match rng.below(14) {
        0 => format!("{}", rng.range(0, 20) as i64 - 10),
        1 => format!("{:.1}", x),
        2 => format!("{:.3}", x),
        3 => format!("{:.6}", x),
        4 => format!("+{:.2}", x.abs()),
        5 => format!("{:e}", x as f32),
        6 => format!("{:E}", x as f32),
        7 => {
            // explicit exponent sign and zero padding: 1.5e+003, -2.25E-02
            let e = rng.range(0, 6) as i32 - 3;
            let m = x / mag;
            format!(
                "{:.3}{}{}{:0w$}",
                m,
                if rng.chance(1, 2) { 'e' } else { 'E' },
                if e < 0 { "-" } else if rng.chance(1, 2) { "+" } else { "" },
                e.abs(),
                w = rng.usize(1, 3)
            )
        }
        8 => format!("{}.", rng.range(0, 99)),
        9 => format!("00{:.2}", x.abs()),
        10 => format!("{:.17}", x),
        11 => (*rng.pick(&["1e-45", "1.17549435e-38", "3.4028235e38", "1e-50", "16777217", "0.1", "1e10", "1e3", "2E2", "-1e0", "2147483648", "-2147483649", "4294967297", "33554433", "-16777217", "123456789"])).to_string(),
        12 => (*rng.pick(&["-0", "-0.0", "0", "0.0", "-0e0", "+0"])).to_string(),
        _ => format!("{}", x as f32),
    }
}

thread_local! {
    /// Layout knob of the file being generated: occasionally separators, indentation,
    /// comments and numerals are hundreds of characters long.
    static WIDE: std::cell::Cell<bool> = const { std::cell::Cell::new(false) };
}

fn wide() -> bool {
    WIDE.with(|w| w.get())
}

fn ws(rng: &mut Rng, min: usize) -> String {
    let n = if wide() && rng.chance(1, 6) {
        rng.usize(5, 300)
    } else if rng.chance(3, 4) {
        min.max(1)
    } else {
        rng.usize(min.max(1), 4)
    };
    (0..n.max(min)).map(|_| if rng.chance(1, 6) { '\t' } else { ' ' }).collect()
}

fn indent(rng: &mut Rng) -> String {
    if wide() && rng.chance(1, 5) {
        return (0..rng.usize(5, 300)).map(|_| if rng.chance(1, 5) { '\t' } else { ' ' }).collect();
    }
    if rng.chance(2, 3) {
        String::new()
    } else {
        (0..rng.usize(1, 5)).map(|_| if rng.chance(1, 5) { '\t' } else { ' ' }).collect()
    }
}

const COMMENTS: [&str; 14] = [
    "# exported from C:\\models\\cube\\",
    "#\\",
    "# line \\ continued? \\",
    "# a\\b",
    "#",
    "# comment",
    "#comment",
    "# f 1 2 3",
    "#v 1 2 3",
    "# 0 -1 99999999999999999999",
    "## double",
    "# vt vn f v # /",
    "#\t tab",
    "# trailing  ",
];

/// A comment line: fixed oddities, or what exporters write (with counts that need not be
/// true — multi-object files repeat them per object).
fn comment_line(rng: &mut Rng) -> String {
    if rng.chance(1, 2) {
        return (*rng.pick(&COMMENTS)).to_string();
    }
    let n = match rng.below(4) {
        0 => 0,
        1 => rng.small(12),
        2 => rng.small(100_000),
        _ => *rng.pick(&[1u64, 3, 255, 256, 65535, 65536, 4294967295, 4294967296, 18446744073709551615]),
    };
    let m = rng.small(50);
    match rng.below(14) {
        0 => format!("# {n} vertices"),
        1 => format!("# {n} faces"),
        2 => format!("# {n} vertex normals"),
        3 => format!("# {n} texture coords"),
        4 => format!("# {n} vertices, {m} faces"),
        5 => format!("# {n} polygons - {m} triangles"),
        6 => format!("# Vertices: {n}"),
        7 => format!("# Faces: {n}"),
        8 => format!("#vertex count = {n}"),
        9 => format!("# {n} elements"),
        10 => "# Blender v2.79 (sub 0) OBJ File: ''".to_string(),
        11 => "# www.blender.org".to_string(),
        12 => format!("# object Cube.{n:03}"),
        _ => format!("# 3ds Max Wavefront OBJ Exporter v0.97b - (c)2007 guruware - File Created: 0{m}.0{m}.20{m:02} 1{m:02}"),
    }
}

pub fn gen_obj(rng: &mut Rng) -> GenObj {
    WIDE.with(|w| w.set(false));
    let is_wide = rng.chance(1, 14);
    WIDE.with(|w| w.set(is_wide));
    let g = gen_obj_inner(rng);
    WIDE.with(|w| w.set(false));
    g
}

/// A mesh far larger than any fixed-width index or buffer a parser might be tempted
/// to use: more than 65 536 vertices, one face on the last of them.
pub fn gen_obj_jumbo(rng: &mut Rng) -> GenObj {
    if rng.chance(1, 4) {
        // a hundred thousand comment and blank lines around a small mesh
        let mut text = Vec::new();
        // (a recursive skipper needs some hundred thousand of them in a row to exhaust an
        // 8 MiB stack)
        let n = rng.usize(250_000, 500_000);
        let at = if rng.chance(1, 2) { n - 10 } else { n / 2 };
        for i in 0..n {
            text.extend_from_slice(if i % 3 == 0 { b"\n" } else { b"#\n" });
            if i == at {
                text.extend_from_slice(b"v 1 2 3\nv 4 5 6\nv -0 7e-1 8\nf 1 2 3\n");
            }
        }
        let verts = vec![[1.0f32, 2.0, 3.0].map(f32::to_bits), [4.0f32, 5.0, 6.0].map(f32::to_bits), [-0.0f32, 0.7, 8.0].map(f32::to_bits)];
        let len = text.len();
        return GenObj { text, verts, tris: vec![[0, 1, 2]], hot: vec![0, len / 2, len], lines: vec![], mutated: false };
    }
    if rng.chance(1, 3) {
        // many faces over few vertices: more than 2^16 triangles
        let nv = rng.usize(3, 40);
        let nt = rng.usize(65_537, 70_000);
        let mut text = Vec::with_capacity(nt * 8);
        let mut verts = vec![];
        for i in 0..nv {
            text.extend_from_slice(format!("v {i} 0.5 -{i}\n").as_bytes());
            verts.push([i as f32, 0.5, -(i as f32)].map(f32::to_bits));
        }
        let mut tris = Vec::with_capacity(nt);
        for i in 0..nt {
            let tri = [i % nv, (i / 7) % nv, nv - 1 - (i % nv)];
            text.extend_from_slice(format!("f {} {} {}\n", tri[0] + 1, tri[1] + 1, tri[2] + 1).as_bytes());
            tris.push(tri);
        }
        let len = text.len();
        return GenObj { text, verts, tris, hot: vec![0, len / 2, len], lines: vec![], mutated: false };
    }
    // mostly just past 2^16 vertices, now and then past 2^20
    let nv = if rng.chance(1, 10) { rng.usize(1_048_577, 1_060_000) } else { rng.usize(65_537, 70_000) };
    // one very long line somewhere among the many: a comment, or a vertex line padded
    // with thousands of blanks
    let long_at = if rng.chance(2, 3) { Some(rng.below(nv as u64) as usize) } else { None };
    let long_is_comment = rng.chance(1, 2);
    let long_len = rng.usize(4_500, 20_000);
    let mut text = Vec::with_capacity(nv * 10);
    let mut verts = Vec::with_capacity(nv);
    for i in 0..nv {
        let t = [(i % 7) as f32, (i % 11) as f32 * 0.5, -((i % 13) as f32)];
        if long_at == Some(i) {
            if long_is_comment {
                text.extend_from_slice(b"# ");
                text.extend((0..long_len).map(|k| b"long line v 1 2 3 "[k % 18]));
                text.push(b'\n');
            } else {
                text.extend_from_slice(b"v");
                text.extend(std::iter::repeat(b' ').take(long_len));
                text.extend_from_slice(format!("{} {} {}\n", t[0], t[1], t[2]).as_bytes());
                verts.push(t.map(f32::to_bits));
                continue;
            }
        }
        text.extend_from_slice(format!("v {} {} {}\n", t[0], t[1], t[2]).as_bytes());
        verts.push(t.map(f32::to_bits));
    }
    let mut tris = vec![];
    for _ in 0..rng.usize(1, 6) {
        let tri = [nv - 1, rng.below(nv as u64) as usize, rng.usize(65_536, nv - 1)];
        text.extend_from_slice(format!("f {} {} {}\n", tri[0] + 1, tri[1] + 1, tri[2] + 1).as_bytes());
        tris.push(tri);
    }
    let len = text.len();
    GenObj { text, verts, tris, hot: vec![0, len / 2, len], lines: vec![], mutated: false }
}

fn gen_obj_inner(rng: &mut Rng) -> GenObj {
    let large = rng.chance(1, 20);
    let nv = if large { rng.usize(100, 400) } else { rng.small(40) as usize };
    let nt = if nv == 0 { 0 } else if large { rng.usize(50, 300) } else { rng.small(60) as usize };
    let nvt = if rng.chance(1, 2) { rng.small(10) as usize } else { 0 };
    let nvn = if rng.chance(1, 2) { rng.small(10) as usize } else { 0 };

    let mut verts = Vec::with_capacity(nv);
    let mut vlines = Vec::with_capacity(nv);
    let dup_rate = if rng.chance(1, 6) { 3 } else { 0 };
    let mut toks: Vec<[String; 3]> = Vec::with_capacity(nv);
    for _ in 0..nv {
        // now and then a vertex that repeats an earlier one exactly (files with seams do)
        let t = if !toks.is_empty() && rng.below(10) < dup_rate {
            rng.pick(&toks).clone()
        } else if rng.chance(1, 30) {
            // a long integer coordinate, with or without sign
            let d = |rng: &mut Rng| format!("{}{}", if rng.chance(1, 2) { "-" } else { "" }, rng.small(9_999_999_999));
            [d(rng), d(rng), d(rng)]
        } else {
            [num_token(rng), num_token(rng), num_token(rng)]
        };
        toks.push(t.clone());
        let p = [0, 1, 2].map(|k| t[k].parse::<f32>().expect("generator emits parseable numbers").to_bits());
        verts.push(p);
        vlines.push(format!("{}v{}{}{}{}{}{}", indent(rng), ws(rng, 1), t[0], ws(rng, 1), t[1], ws(rng, 1), t[2]));
    }
    let vtlines: Vec<String> = (0..nvt)
        .map(|_| {
            let third = if rng.chance(1, 4) { format!("{}{}", ws(rng, 1), num_token(rng)) } else { String::new() };
            format!("{}vt{}{}{}{}{}", indent(rng), ws(rng, 1), num_token(rng), ws(rng, 1), num_token(rng), third)
        })
        .collect();
    let vnlines: Vec<String> = (0..nvn)
        .map(|_| format!("{}vn{}{}{}{}{}{}", indent(rng), ws(rng, 1), num_token(rng), ws(rng, 1), num_token(rng), ws(rng, 1), num_token(rng)))
        .collect();

    // index forms available in this file
    let mut forms = vec![0u8];
    if nvt > 0 {
        forms.push(1);
    }
    if nvn > 0 {
        forms.push(2);
    }
    if nvt > 0 && nvn > 0 {
        forms.push(3);
    }
    let file_form = if rng.chance(1, 2) { Some(*rng.pick(&forms)) } else { None };
    let mut tris = Vec::with_capacity(nt);
    let mut flines = Vec::with_capacity(nt);
    for _ in 0..nt {
        let form = file_form.unwrap_or_else(|| *rng.pick(&forms));
        let mut tri = [0usize; 3];
        let mut s = format!("{}f", indent(rng));
        for t in &mut tri {
            // bias toward first/last vertex: the off-by-one corners
            let v = match rng.below(6) {
                0 => 0,
                1 => nv - 1,
                _ => rng.below(nv as u64) as usize,
            };
            *t = v;
            s.push_str(&ws(rng, 1));
            let vt = |rng: &mut Rng| if rng.chance(1, 4) { nvt } else { rng.usize(1, nvt) };
            let vn = |rng: &mut Rng| if rng.chance(1, 4) { nvn } else { rng.usize(1, nvn) };
            match form {
                0 => s.push_str(&format!("{}", v + 1)),
                1 => s.push_str(&format!("{}/{}", v + 1, vt(rng))),
                2 => s.push_str(&format!("{}//{}", v + 1, vn(rng))),
                _ => s.push_str(&format!("{}/{}/{}", v + 1, vt(rng), vn(rng))),
            }
        }
        tris.push(tri);
        flines.push(s);
    }

    // order: faces before, after, or interleaved with the vertices they use
    let mut seqs: Vec<std::vec::IntoIter<String>> = vec![vlines.into_iter(), vtlines.into_iter(), vnlines.into_iter()];
    let faces = flines.into_iter();
    let mut ordered: Vec<String> = Vec::new();
    let merge = |rng: &mut Rng, seqs: &mut Vec<std::vec::IntoIter<String>>, out: &mut Vec<String>| loop {
        let live: Vec<usize> = (0..seqs.len()).filter(|&i| seqs[i].len() > 0).collect();
        if live.is_empty() {
            break;
        }
        // weight by remaining length so the merge is roughly uniform
        let total: usize = live.iter().map(|&i| seqs[i].len()).sum();
        let mut r = rng.below(total as u64) as usize;
        for &i in &live {
            if r < seqs[i].len() {
                out.push(seqs[i].next().unwrap());
                break;
            }
            r -= seqs[i].len();
        }
    };
    match rng.below(3) {
        0 => {
            ordered.extend(faces);
            merge(rng, &mut seqs, &mut ordered);
        }
        1 => {
            merge(rng, &mut seqs, &mut ordered);
            ordered.extend(faces);
        }
        _ => {
            seqs.push(faces);
            merge(rng, &mut seqs, &mut ordered);
        }
    }

    // noise lines and line ends
    let noise_rate = *rng.pick(&[0u64, 0, 5, 15, 40]);
    let mut text = Vec::new();
    let mut hot = vec![0usize];
    let mut lines = Vec::new();
    let mut push_line = |text: &mut Vec<u8>, s: &str, rng: &mut Rng, last: bool, final_nl: bool| {
        let start = text.len();
        // token boundaries are hot
        let mut prev_blank = true;
        for (i, b) in s.bytes().enumerate() {
            let blank = b == b' ' || b == b'\t';
            if blank != prev_blank {
                hot.push(start + i);
            }
            prev_blank = blank;
        }
        text.extend_from_slice(s.as_bytes());
        if rng.chance(1, 8) {
            text.extend_from_slice(ws(rng, 1).as_bytes());
        }
        if !last || final_nl {
            text.push(b'\n');
        }
        hot.push(text.len());
        lines.push((start, text.len() - start));
    };
    let final_nl = rng.chance(2, 3);
    let n = ordered.len();
    if rng.below(100) < noise_rate {
        let c = comment_line(rng);
        push_line(&mut text, &c, rng, false, true);
    }
    for (i, l) in ordered.iter().enumerate() {
        push_line(&mut text, l, rng, i + 1 == n, final_nl);
        while rng.below(100) < noise_rate && (i + 1 < n || final_nl) {
            match rng.below(4) {
                0 => push_line(&mut text, "", rng, false, true),
                1 => {
                    let w = ws(rng, 1);
                    push_line(&mut text, &w, rng, false, true)
                }
                2 => {
                    let c = if wide() {
                        format!("{}# {}", indent(rng), "long comment f 1 2 3 ".repeat(rng.usize(5, 500)))
                    } else {
                        format!("{}{}", indent(rng), comment_line(rng))
                    };
                    push_line(&mut text, &c, rng, false, true)
                }
                _ => {
                    let c = comment_line(rng);
                    push_line(&mut text, &c, rng, false, true)
                }
            }
        }
    }
    hot.sort_unstable();
    hot.dedup();
    if rng.chance(1, 6) {
        // whole-line comments may hold any bytes: Latin-1, UTF-8, control characters
        for &(st, ln) in &lines {
            let line = &mut text[st..st + ln];
            let Some(h) = line.iter().position(|&b| b != b' ' && b != b'\t') else { continue };
            if line[h] != b'#' {
                continue;
            }
            for b in &mut line[h + 1..] {
                if *b != b'\n' && rng.chance(1, 3) {
                    let c = match rng.below(4) {
                        0 => rng.range(0x80, 0xff) as u8,
                        1 => *rng.pick(&[0xc3u8, 0xa9, 0xe2, 0x82, 0xac, 0xf4, 0xe9]),
                        2 => *rng.pick(&[0u8, 1, 0x0b, 0x0c, b'\r', 0x1b, 0x7f]),
                        _ => *b,
                    };
                    *b = c;
                }
            }
        }
    }
    GenObj { text, verts, tris, hot, lines, mutated: false }
}

const BAD_INDEX: [&str; 30] = [
    "-9223372036854775808", "-9223372036854775809", "-9223372036854775807", "-18446744073709551615", "-18446744073709551616", "-4294967296", "-2147483648", "-0",
    "0", "-1", "-3", "99999999999999999999999", "18446744073709551616", "18446744073709551615", "4294967296",
    "4294967295", "1/0", "1//0", "0/1/1", "1/", "/", "//", "1/2/3/4", "a", "1.0", "+1", "01", "1/1/", "/1", "9223372036854775808",
];
const BAD_NUM: [&str; 12] = ["nan", "inf", "-inf", "1e", "--1", "1.2.3", "", "e5", "0x10", "1,5", "1e999", "\u{00e9}"];
const OTHER_ITEMS: [&str; 12] = ["vp", "g", "o", "usemtl", "s", "F", "V", "mtllib", "l", "p", "vv", "ff"];

/// Near-miss files: what a buggy exporter, not a storage fault, would produce. Part of
/// the *workload*; only totality and shape are demanded of them (the reference is unsure).
pub fn mutate_obj(rng: &mut Rng, g: &mut GenObj) {
    let mut lines: Vec<Vec<u8>> = g.text.split(|&b| b == b'\n').map(|l| l.to_vec()).collect();
    let n_mut = rng.usize(1, 2);
    for _ in 0..n_mut {
        let kind = rng.below(9);
        let pick_line = |rng: &mut Rng, lines: &Vec<Vec<u8>>, kw: &[u8]| -> Option<usize> {
            let c: Vec<usize> = (0..lines.len())
                .filter(|&i| {
                    let t: Vec<&[u8]> = lines[i].split(|&b| b == b' ' || b == b'\t').filter(|t| !t.is_empty()).collect();
                    t.first().map_or(false, |k| *k == kw)
                })
                .collect();
            if c.is_empty() {
                None
            } else {
                Some(*rng.pick(&c))
            }
        };
        let replace_token = |line: &mut Vec<u8>, k: usize, with: &[u8]| {
            // replace the k-th whitespace-separated token
            let mut out = Vec::new();
            let mut idx = 0usize;
            let mut i = 0;
            while i < line.len() {
                if line[i] == b' ' || line[i] == b'\t' {
                    out.push(line[i]);
                    i += 1;
                    continue;
                }
                let s = i;
                while i < line.len() && line[i] != b' ' && line[i] != b'\t' {
                    i += 1;
                }
                if idx == k {
                    out.extend_from_slice(with);
                } else {
                    out.extend_from_slice(&line[s..i]);
                }
                idx += 1;
            }
            *line = out;
        };
        match kind {
            0 | 1 | 2 => {
                if let Some(i) = pick_line(rng, &lines, b"f") {
                    let k = rng.usize(1, 3);
                    if rng.chance(1, 3) {
                        // an index that aliases an existing vertex if it is ever narrowed:
                        // 2^8, 2^16, 2^24, 2^32, ... plus a valid index
                        let nv = lines
                            .iter()
                            .filter(|l| l.split(|&b| b == b' ' || b == b'\t').find(|t| !t.is_empty()) == Some(&b"v"[..]))
                            .count()
                            .max(1) as u64;
                        let base = *rng.pick(&[1u64 << 8, 1 << 16, 1 << 24, 1 << 31, 1 << 32, 1 << 33, 3 << 32, 1 << 53]);
                        let w = (base + rng.range(1, nv)).to_string();
                        replace_token(&mut lines[i], k, w.as_bytes());
                    } else {
                        let w = *rng.pick(&BAD_INDEX);
                        replace_token(&mut lines[i], k, w.as_bytes());
                    }
                }
            }
            3 => {
                if let Some(i) = pick_line(rng, &lines, b"v") {
                    let k = rng.usize(1, 3);
                    let w = *rng.pick(&BAD_NUM);
                    replace_token(&mut lines[i], k, w.as_bytes());
                }
            }
            4 => {
                // faces with no vertices defined at all
                lines.retain(|l| {
                    let t: Vec<&[u8]> = l.split(|&b| b == b' ' || b == b'\t').filter(|t| !t.is_empty()).collect();
                    t.first().map_or(true, |k| *k != b"v")
                });
            }
            5 => {
                let kw: &[u8] = *rng.pick(&[&b"v"[..], b"f", b"vt", b"vn"]);
                if let Some(i) = pick_line(rng, &lines, kw) {
                    let w = *rng.pick(&OTHER_ITEMS);
                    replace_token(&mut lines[i], 0, w.as_bytes());
                }
            }
            6 => {
                // non-ASCII / control byte somewhere
                if !lines.is_empty() {
                    let i = rng.below(lines.len() as u64) as usize;
                    let at = rng.below(lines[i].len() as u64 + 1) as usize;
                    let b = *rng.pick(&[0xffu8, 0x80, 0xc3, 0x00, 0x0d, 0x0b, 0x0c, 0xe2, 0x7f, 0xa0]);
                    lines[i].insert(at, b);
                }
            }
            7 => {
                // extra or missing field
                let kw: &[u8] = *rng.pick(&[&b"v"[..], b"f", b"vt", b"vn"]);
                if let Some(i) = pick_line(rng, &lines, kw) {
                    if rng.chance(1, 3) {
                        lines[i].extend_from_slice(b" 4");
                    } else if rng.chance(1, 2) {
                        // a polygon or an over-long record: many more fields than three
                        let k = *rng.pick(&[1usize, 2, 5, 12, 13, 14, 15, 16, 17, 30, 31, 32, 33, 63, 64, 65, 100, 255, 256, 257, 300, 1000]);
                        for j in 0..k {
                            let t = if kw == b"f" { format!(" {}", 1 + j % 3) } else { format!(" {}.5", j % 7) };
                            lines[i].extend_from_slice(t.as_bytes());
                        }
                    } else {
                        let k = rng.usize(1, 3);
                        replace_token(&mut lines[i], k, b"");
                    }
                }
            }
            _ => {
                // drop one vertex line: some index may now be out of range by exactly one
                if let Some(i) = pick_line(rng, &lines, b"v") {
                    lines.remove(i);
                }
            }
        }
    }
    g.text = lines.join(&b'\n');
    g.mutated = true;
    // offsets moved: recompute line spans, keep only line starts as hot spots
    g.lines.clear();
    g.hot.clear();
    let mut s = 0;
    for l in g.text.split_inclusive(|&b| b == b'\n') {
        g.hot.push(s);
        g.lines.push((s, l.len()));
        s += l.len();
    }
    g.hot.push(s);
}

// ---------------------------------------------------------------------------
// Scenario generation (seeded search)
// ---------------------------------------------------------------------------

/// Jumbo scenario: benign stream over a very large file.
pub fn gen_jumbo(seed: u64) -> (ObjScenario, &'static str, Option<String>) {
    let mut rng = Rng::new(seed);
    let g = gen_obj_jumbo(&mut rng);
    let mut self_check = None;
    match ref_obj(&g.text) {
        RefObj::Accept { verts, tris, .. } if verts == g.verts && tris == g.tris => {}
        _ => self_check = Some("reference disagrees with generator on a jumbo file".to_string()),
    }
    let len = g.text.len();
    let mut reader = gen_reader_benign(&mut rng, len);
    // one byte at a time over a megabyte is all cost and no extra coverage
    if reader.chunks.iter().all(|&c| c != 0 && c < 64) {
        reader.chunks = vec![4096, 1000, 0, 7];
    }
    if let RStack::Buf { cap, .. } | RStack::ChainBuf { cap, .. } = &mut reader.stack {
        *cap = (*cap).max(512);
    }
    (ObjScenario { text: g.text, disk: vec![], reader, via_path: false }, "search:jumbo", self_check)
}

pub fn gen_scenario(seed: u64) -> (ObjScenario, &'static str, Option<String>) {
    let mut rng = Rng::new(seed);
    let mut g = gen_obj(&mut rng);
    // Harness self-check: the reference must read a generated file back as generated.
    let mut self_check = None;
    match ref_obj(&g.text) {
        RefObj::Accept { verts, tris, .. } if verts == g.verts && tris == g.tris => {}
        other => self_check = Some(format!("reference disagrees with generator: {other:?}")),
    }
    let mode = rng.below(100);
    let mut kind = "search:benign";
    if mode >= 50 && mode < 62 {
        mutate_obj(&mut rng, &mut g);
        kind = "search:near-miss";
    }
    let len = g.text.len();
    let mut reader = gen_reader_benign(&mut rng, len);
    let mut disk = vec![];
    if mode >= 62 {
        // destructive: storage faults, stream faults, or both
        kind = "search:destructive";
        let which = rng.below(10);
        if which < 7 {
            disk = gen_disk_faults(&mut rng, len, &g.hot, &g.lines, false);
        }
        if which >= 5 {
            add_reader_fault(&mut rng, &mut reader, len, &g.hot);
            // a premature end-of-file answer is most telling inside a comment, whose tail
            // may read like a line of its own
            if let Some(ee) = &mut reader.early_eof {
                let comments: Vec<(usize, usize)> = g
                    .lines
                    .iter()
                    .filter_map(|&(st, ln)| {
                        let l = &g.text[st..st + ln];
                        let h = l.iter().position(|&b| b != b' ' && b != b'\t')?;
                        (l[h] == b'#' && ln > h + 1).then_some((st + h + 1, st + ln))
                    })
                    .collect();
                if !comments.is_empty() && rng.chance(1, 2) {
                    let (a, b) = *rng.pick(&comments);
                    // ... preferably right before something that reads like an item
                    let itemish: Vec<usize> = (a..b)
                        .filter(|&i| {
                            let t = &g.text[i..b];
                            t.starts_with(b"v ") || t.starts_with(b"f ") || t.starts_with(b"vt ") || t.starts_with(b"vn ")
                        })
                        .collect();
                    ee.at_byte = if !itemish.is_empty() && rng.chance(2, 3) { *rng.pick(&itemish) } else { rng.usize(a, b - 1) } as u32;
                }
            }
        }
    }
    let via_path = rng.chance(1, 40);
    (ObjScenario { text: g.text, disk, reader, via_path }, kind, self_check)
}

// ---------------------------------------------------------------------------
// Execution and oracles
// ---------------------------------------------------------------------------

struct ReadObj;
impl ReadConsumer for ReadObj {
    type Out = Result<Builder<()>, re_geom::io::Error>;
    fn consume<R: Read>(self, r: R) -> Self::Out {
        read_obj(r)
    }
    fn consume_path(self, path: &std::path::Path) -> Self::Out {
        re_geom::io::load_obj(path)
    }
}

/// Converts a library result and applies oracle S (shape) to it.
fn observe(res: Result<Builder<()>, re_geom::io::Error>, who: &str, rr: &mut RunResult) -> ObjOut {
    match res {
        Err(e) => ObjOut::Err(err_class(&e)),
        Ok(b) => {
            let nv = b.mesh.verts.len();
            let verts: Vec<[u32; 3]> = b.mesh.verts.iter().map(|v| v.pos.0.map(f32::to_bits)).collect();
            let tris: Vec<[usize; 3]> = b.mesh.faces.iter().map(|t| t.0).collect();
            let in_range = tris.iter().flatten().all(|&i| i < nv);
            // build() must hand back the very mesh the builder holds
            let built = catch(|| {
                let m = b.build();
                let v: Vec<[u32; 3]> = m.verts.iter().map(|v| v.pos.0.map(f32::to_bits)).collect();
                let f: Vec<[usize; 3]> = m.faces.iter().map(|t| t.0).collect();
                (v, f)
            });
            let ok = in_range && built.as_ref().map_or(false, |(v, f)| *v == verts && *f == tris);
            rr.oracle("S", ok);
            if !in_range {
                let bad = tris.iter().flatten().find(|&&i| i >= nv).unwrap();
                rr.violate(Violation::new(
                    "S",
                    "index-out-of-range",
                    format!("{who}: Ok(builder) with face index {bad} but only {nv} vertices"),
                ));
            } else if let Err(c) = &built {
                rr.violate(Violation::new("S", format!("build-{}", c.class()), format!("{who}: build() {}", c.detail())));
            } else if !ok {
                rr.violate(Violation::new("S", "build-changed-mesh", format!("{who}: build() returned a mesh that differs from the builder's")));
            }
            ObjOut::Ok { verts, tris }
        }
    }
}

fn diff(a: &ObjOut, b: &ObjOut) -> &'static str {
    match (a, b) {
        (ObjOut::Ok { verts: va, tris: ta }, ObjOut::Ok { verts: vb, tris: tb }) => {
            // "exactly ... the written coordinates": bit patterns, so that -0 stays -0
            if va.len() != vb.len() {
                "vertex-count"
            } else if va != vb {
                "vertex-value"
            } else if ta.len() != tb.len() {
                "face-count"
            } else if ta != tb {
                "face-index"
            } else {
                "equal"
            }
        }
        (ObjOut::Err(_), ObjOut::Ok { .. }) => "err-vs-ok",
        (ObjOut::Ok { .. }, ObjOut::Err(_)) => "ok-vs-err",
        (ObjOut::Err(x), ObjOut::Err(y)) => {
            // which error is not part of either property: "or an error"
            let _ = (x, y);
            "equal"
        }
    }
}

pub fn run(scn: &ObjScenario, record: bool) -> RunResult {
    let mut rr = RunResult::default();
    let log = Log::new(record);
    let mut bytes = scn.text.clone();
    apply_disk_faults(&mut bytes, &scn.disk, &log);

    // --- no_std entry point over the bytes on disk: no stream in the way ------------
    let base = catch(|| parse_obj(bytes.iter().copied()));
    let base_out = match base {
        Ok(r) => {
            rr.oracle("T", true);
            Some(observe(r, "parse_obj(disk bytes)", &mut rr))
        }
        Err(c) => {
            rr.oracle("T", false);
            rr.violate(Violation::new("T", c.class(), format!("parse_obj(disk bytes) {}", c.detail())));
            None
        }
    };

    // --- the same bytes through the simulated stream --------------------------------
    let (src, core) = SimSource::new(bytes.clone(), &scn.reader, log.clone());
    let streamed = catch(|| drive_reader(scn.reader.stack, src, ReadObj));
    let delivered = core.borrow().pos;
    let streamed_out = match streamed {
        Ok(r) => {
            rr.oracle("T", true);
            Some(observe(r, "read_obj(stream)", &mut rr))
        }
        Err(c) => {
            rr.oracle("T", false);
            rr.violate(Violation::new("T", c.class(), format!("read_obj(stream) {}", c.detail())));
            None
        }
    };

    let ledger = log.borrow().ledger.clone();
    let refv = ref_obj(&bytes);

    // --- X: exact agreement with the reference wherever it accepts --------------------
    if let (RefObj::Accept { verts, tris, soft }, Some(out)) = (&refv, &base_out) {
        let want = ObjOut::Ok { verts: verts.clone(), tris: tris.clone() };
        let mut d = diff(out, &want);
        if *soft && d == "err-vs-ok" {
            rr.probe("soft acceptance: reader refused a `+` sign or a bare trailing dot (tolerated)");
            d = "equal";
        }
        rr.oracle("X", d == "equal");
        if d != "equal" {
            rr.violate(Violation::new(
                "X",
                d,
                format!("parse_obj on a well-formed file: got {}, reference says {}", out.brief(), want.brief()),
            ));
        }
        if ledger.storage_fired() > 0 {
            rr.probe("damaged file still well-formed (X applied after storage fault)");
        }
    }

    // --- R: a file that refers to vertices it does not define has no faithful mesh ------
    // An error is right. An `Ok` must not invent anything: the listed vertices, and
    // only faces that are listed (a reader that drops dangling faces is tolerated; one
    // that wraps or narrows an index onto an existing vertex is not).
    if let (RefObj::Dangling { verts, tris }, Some(out)) = (&refv, &base_out) {
        let ok = match out {
            ObjOut::Err(_) => true,
            ObjOut::Ok { verts: v, tris: t } => {
                let mut it = tris.iter();
                v == verts && t.iter().all(|f| it.any(|g| g == f))
            }
        };
        rr.oracle("R", ok);
        rr.probe("dangling-index file (reference: error expected)");
        if !ok {
            rr.violate(Violation::new(
                "R",
                "invented-face-or-vertex",
                format!(
                    "the file lists faces {:?}{} over {} vertices (some index refers to nothing), yet parse_obj answered {}",
                    &tris[..tris.len().min(4)],
                    if tris.len() > 4 { "…" } else { "" },
                    verts.len(),
                    out.brief()
                ),
            ));
        }
    }

    // --- E: the stream must be invisible when it was merely awkward -------------------
    let (rd_err, eof_stop, eof_resumed) = (ledger.get(K::read_err) + ledger.get(K::read_err_after_eof) + ledger.get(K::open_err), ledger.get(K::early_eof), ledger.get(K::early_eof_resumed));
    if rd_err == 0 && eof_resumed == 0 {
        if let Some(sout) = &streamed_out {
            // with a non-resuming early EOF the consumer saw exactly a prefix
            let expect = if eof_stop > 0 {
                rr.probe("early EOF: streamed result compared with parse of the delivered prefix");
                catch(|| parse_obj(bytes[..delivered].iter().copied())).ok().map(|r| {
                    let mut scratch = RunResult::default();
                    observe(r, "parse_obj(prefix)", &mut scratch)
                })
            } else {
                base_out.clone()
            };
            if let Some(want) = expect {
                let d = diff(sout, &want);
                rr.oracle("E", d == "equal");
                if d != "equal" {
                    rr.violate(Violation::new(
                        "E",
                        d,
                        format!(
                            "read_obj over {} differs from parse_obj over the same {} bytes: stream gave {}, bytes gave {}",
                            rstack_name(scn.reader.stack),
                            if eof_stop > 0 { delivered } else { bytes.len() },
                            sout.brief(),
                            want.brief()
                        ),
                    ));
                }
            }
        }
    }

    // --- G: a premature end-of-file answer followed by more data ------------------------
    // `Ok(0)` once, then data again (a file still being appended to, a pipe whose writer
    // paused). Stopping there is right, carrying on is right, an error is fine; a mesh
    // that is neither the prefix's nor the whole file's is not.
    if eof_resumed > 0 && rd_err == 0 && eof_stop == 0 {
        let at = core.borrow().resumed_at.unwrap_or(0);
        if let (RefObj::Accept { .. }, Some(sout), Some(whole)) = (&refv, &streamed_out, &base_out) {
            let prefix = catch(|| parse_obj(bytes[..at].iter().copied())).ok().map(|r| observe(r, "", &mut RunResult::default()));
            let ok = matches!(sout, ObjOut::Err(_)) || diff(sout, whole) == "equal" || prefix.as_ref().map_or(false, |p| diff(sout, p) == "equal");
            rr.oracle("G", ok);
            if !ok {
                rr.violate(Violation::new(
                    "G",
                    "hybrid-mesh-after-premature-eof",
                    format!(
                        "the source answered Ok(0) once after {at} of {} bytes of a well-formed file and then went on; read_obj answered {}, which is neither what the first {at} bytes say ({}) nor what the whole file says ({})",
                        bytes.len(),
                        sout.brief(),
                        prefix.as_ref().map_or("a panic".into(), |p| p.brief()),
                        whole.brief()
                    ),
                ));
            }
        }
    }

    // --- F: a failing stream may cost the result, never falsify it -----------------------
    if rd_err > 0 {
        if let (RefObj::Accept { verts, tris, .. }, Some(sout)) = (&refv, &streamed_out) {
            let want = ObjOut::Ok { verts: verts.clone(), tris: tris.clone() };
            let ok = matches!(sout, ObjOut::Err(_)) || diff(sout, &want) == "equal";
            rr.oracle("F", ok);
            if !ok {
                rr.violate(Violation::new(
                    "F",
                    format!("wrong-mesh-after-read-error:{}", diff(sout, &want)),
                    format!(
                        "the source failed with an I/O error after {delivered} of {} bytes of a well-formed file, and read_obj answered {} instead of an error (the file holds {})",
                        bytes.len(),
                        sout.brief(),
                        want.brief()
                    ),
                ));
            }
        }
    }

    // --- probes ------------------------------------------------------------------------
    if rd_err > 0 {
        rr.probe("read error fired");
        if let Some(ObjOut::Err(e)) = &streamed_out {
            if e.starts_with("Io(") {
                rr.probe("read error reported as Err(Io)");
            }
        }
    }
    if ledger.get(K::eintr_before_eof) > 0 {
        rr.probe("EINTR immediately before EOF");
    }
    if ledger.get(K::eof_polls) >= 2 {
        rr.probe("reader polled again after EOF");
    }
    if let RStack::Buf { cap, .. } | RStack::ChainBuf { cap, .. } = scn.reader.stack {
        if bytes.len() > 2 * cap as usize {
            rr.probe("BufReader refilled >= 2x");
        }
    }
    if bytes.len() > 8192 {
        rr.probe("file larger than default BufReader capacity");
    }
    {
        let has = |kw: &[u8]| {
            bytes.split(|&b| b == b'\n').any(|l| {
                l.split(|&b| b == b' ' || b == b'\t').find(|t| !t.is_empty()).map_or(false, |t| t == kw)
            })
        };
        if ledger.storage_fired() + eof_stop > 0 && has(b"f") && !has(b"v") {
            rr.probe("faces but no vertex line after fault");
        }
    }
    match (&refv, ledger.storage_fired()) {
        (RefObj::Unsure(_), 0) if scn.disk.is_empty() => rr.probe("near-miss workload (reference unsure)"),
        _ => {}
    }
    if matches!(base_out, Some(ObjOut::Err(_))) {
        rr.probe("decoder returned Err");
    }

    if scn.via_path {
        // W: load_obj over a real file holding the same bytes == parse_obj over the bytes
        if let (Some(path), Some(want)) = (crate::core::scratch_file("obj"), &base_out) {
            rr.probe("path wrapper cross-checked on the real file system");
            if std::fs::write(&path, &bytes).is_ok() {
                match catch(|| re_geom::io::load_obj(&path)) {
                    Err(c) => rr.violate(Violation::new("W", format!("load-{}", c.class()), format!("load_obj {}", c.detail()))),
                    Ok(r) => {
                        let got = observe(r, "load_obj", &mut RunResult::default());
                        let d = diff(&got, want);
                        rr.oracle("W", d == "equal");
                        if d != "equal" {
                            rr.violate(Violation::new("W", format!("load-{d}"), format!("load_obj(path) gave {} but parse_obj over the file's {} bytes gave {}", got.brief(), bytes.len(), want.brief())));
                        }
                    }
                }
            }
            // the same path rewritten with content of the same length must be read afresh
            if let Some(variant) = same_length_variant(&bytes) {
                if let (Ok(()), Ok(w)) = (std::fs::write(&path, &variant), catch(|| parse_obj(variant.iter().copied()))) {
                    let want2 = observe(w, "", &mut RunResult::default());
                    match catch(|| re_geom::io::load_obj(&path)) {
                        Err(c) => rr.violate(Violation::new("W", format!("reload-{}", c.class()), format!("load_obj after a same-length rewrite {}", c.detail()))),
                        Ok(r) => {
                            let got = observe(r, "load_obj", &mut RunResult::default());
                            let d = diff(&got, &want2);
                            rr.oracle("W", d == "equal");
                            if d != "equal" {
                                rr.violate(Violation::new("W", format!("reload-{d}"), format!("the file at the same path was rewritten with {} different bytes of the same length; load_obj gave {} but the file now says {}", variant.len(), got.brief(), want2.brief())));
                            }
                        }
                    }
                }
            }
            let _ = std::fs::remove_file(&path);
            match catch(|| re_geom::io::load_obj(&path)) {
                Ok(Err(_)) => rr.oracle("W", true),
                Ok(Ok(_)) => rr.violate(Violation::new("W", "load-missing-ok", "load_obj of a missing file returned Ok")),
                Err(c) => rr.violate(Violation::new("W", format!("load-missing-{}", c.class()), format!("load_obj of a missing file {}", c.detail()))),
            }
        }
    }

    rr.benign_only = ledger.read_destructive() + ledger.storage_fired() == 0;
    rr.log_hash = {
        let mut h = log.borrow().hash;
        h.u64(bytes.len() as u64);
        h.0
    };
    if record {
        rr.notes.insert("disk_bytes".into(), escape_bytes(&bytes));
        rr.notes.insert("delivered_len".into(), delivered.to_string());
        rr.notes.insert("reference".into(), match &refv {
            RefObj::Accept { verts, tris, soft } => format!("Accept({} verts, {} tris{})", verts.len(), tris.len(), if *soft { ", soft" } else { "" }),
            RefObj::Dangling { verts, tris } => format!("Dangling({} verts, {} tris)", verts.len(), tris.len()),
            RefObj::Unsure(w) => format!("Unsure({w})"),
        });
        rr.notes.insert("parse_obj".into(), base_out.as_ref().map_or("panicked".into(), |o| o.brief()));
        rr.notes.insert("read_obj".into(), streamed_out.as_ref().map_or("panicked".into(), |o| o.brief()));
        rr.events = std::mem::take(&mut log.borrow_mut().events);
    }
    rr.ledger = ledger;
    rr
}

pub fn stacks(scn: &ObjScenario) -> Vec<String> {
    vec![rstack_name(scn.reader.stack)]
}

// ---------------------------------------------------------------------------
// Minimisation candidates
// ---------------------------------------------------------------------------

/// Reader fault positions after bytes `[a, b)` of the file were removed.
pub fn shift_reader(r: &ReaderCfg, a: usize, b: usize) -> ReaderCfg {
    let sh = |p: u32| -> u32 {
        let p = p as usize;
        (if p >= b { p - (b - a) } else if p > a { a } else { p }) as u32
    };
    let mut r = r.clone();
    if let Some(e) = &mut r.err {
        if let At::Byte(p) = e.at {
            e.at = At::Byte(sh(p));
        }
    }
    if let Some(e) = &mut r.early_eof {
        e.at_byte = sh(e.at_byte);
    }
    r
}

pub fn shift_faults(disk: &[DiskFault], a: usize, b: usize) -> Vec<DiskFault> {
    // bytes [a, b) of the text were removed
    let sh = |p: u32| -> u32 {
        let p = p as usize;
        (if p >= b { p - (b - a) } else if p > a { a } else { p }) as u32
    };
    disk.iter()
        .map(|f| match *f {
            DiskFault::Crash { keep } => DiskFault::Crash { keep: sh(keep) },
            DiskFault::Truncate { len } => DiskFault::Truncate { len: sh(len) },
            DiskFault::BitFlip { byte, bit } => DiskFault::BitFlip { byte: sh(byte), bit },
            DiskFault::ZeroBlock { at, len } => DiskFault::ZeroBlock { at: sh(at), len },
            DiskFault::LostBlock { at, len } => DiskFault::LostBlock { at: sh(at), len },
            DiskFault::DupBlock { at, len } => DiskFault::DupBlock { at: sh(at), len },
            DiskFault::GarbageBlock { at, len, seed } => DiskFault::GarbageBlock { at: sh(at), len, seed },
            DiskFault::CopyBlock { from, to, len } => DiskFault::CopyBlock { from: sh(from), to: sh(to), len },
        })
        .collect()
}

pub fn shrink_reader(r: &ReaderCfg) -> Vec<ReaderCfg> {
    let mut out = vec![];
    if r.stack != RStack::Raw {
        out.push(ReaderCfg { stack: RStack::Raw, ..r.clone() });
    }
    if !r.chunks.is_empty() {
        out.push(ReaderCfg { chunks: vec![], ..r.clone() });
        if r.chunks != [1] {
            out.push(ReaderCfg { chunks: vec![1], ..r.clone() });
        }
    }
    if !r.eintr_at.is_empty() {
        out.push(ReaderCfg { eintr_at: vec![], ..r.clone() });
        if r.eintr_at.len() > 1 {
            for i in 0..r.eintr_at.len() {
                let mut e = r.eintr_at.clone();
                e.remove(i);
                out.push(ReaderCfg { eintr_at: e, ..r.clone() });
            }
        }
    }
    if r.eintr_at_eof > 0 {
        out.push(ReaderCfg { eintr_at_eof: 0, ..r.clone() });
    }
    if r.err.is_some() {
        out.push(ReaderCfg { err: None, ..r.clone() });
    }
    if r.early_eof.is_some() {
        out.push(ReaderCfg { early_eof: None, ..r.clone() });
    }
    if r.err_after_eof.is_some() {
        out.push(ReaderCfg { err_after_eof: None, ..r.clone() });
    }
    if r.open_err.is_some() {
        out.push(ReaderCfg { open_err: None, ..r.clone() });
    }
    out
}

pub fn shrink(s: &ObjScenario) -> Vec<ObjScenario> {
    let mut out = vec![];
    if s.via_path {
        out.push(ObjScenario { via_path: false, ..s.clone() });
    }
    for i in 0..s.disk.len() {
        let mut d = s.disk.clone();
        d.remove(i);
        out.push(ObjScenario { disk: d, ..s.clone() });
    }
    for r in shrink_reader(&s.reader) {
        out.push(ObjScenario { reader: r, ..s.clone() });
    }
    // drop runs of lines: halves, quarters, ..., single lines
    let mut spans = vec![];
    let mut st = 0;
    for l in s.text.split_inclusive(|&b| b == b'\n') {
        spans.push((st, st + l.len()));
        st += l.len();
    }
    let n = spans.len();
    let mut width = n / 2;
    while width >= 1 {
        let mut i = 0;
        while i + width <= n && out.len() < 300 {
            let (a, b) = (spans[i].0, spans[i + width - 1].1);
            let mut t = s.text[..a].to_vec();
            t.extend_from_slice(&s.text[b..]);
            out.push(ObjScenario { text: t, disk: shift_faults(&s.disk, a, b), reader: shift_reader(&s.reader, a, b), via_path: s.via_path });
            i += width;
        }
        if width == 1 {
            break;
        }
        width /= 2;
    }
    // squeeze whitespace runs and simplify number tokens inside lines
    for &(a, b) in &spans {
        if out.len() >= 400 {
            break;
        }
        let line = &s.text[a..b];
        let mut squeezed = Vec::with_capacity(line.len());
        let mut prev_blank = true;
        for &c in line {
            let blank = c == b' ' || c == b'\t';
            if blank && prev_blank {
                continue;
            }
            squeezed.push(if blank { b' ' } else { c });
            prev_blank = blank;
        }
        if squeezed.len() < line.len() && s.disk.is_empty() {
            let mut t = s.text[..a].to_vec();
            t.extend_from_slice(&squeezed);
            t.extend_from_slice(&s.text[b..]);
            out.push(ObjScenario { text: t, disk: vec![], reader: s.reader.clone(), via_path: s.via_path });
        }
    }
    out
}

// ---------------------------------------------------------------------------
// Fault-placement sweeps: one fault at *every* position of a sampled base file
// ---------------------------------------------------------------------------

pub fn sweep_base(seed: u64) -> crate::sweep::SweepBase {
    // small well-formed files; retry until the size is sweepable
    let mut s = seed;
    loop {
        let mut rng = Rng::new(crate::rng::splitmix(&mut s));
        let g = gen_obj(&mut rng);
        if g.text.len() >= 8 && g.text.len() <= 700 && !g.tris.is_empty() {
            return crate::sweep::SweepBase::new(g.text, g.lines, &mut rng);
        }
    }
}

pub fn sweep_job(base: &crate::sweep::SweepBase, k: usize) -> (ObjScenario, &'static str) {
    let (disk, reader, kind) = base.job(k);
    (ObjScenario { text: base.bytes.clone(), disk, reader, via_path: false }, kind)
}
