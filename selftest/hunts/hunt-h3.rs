//! Hunt h3: write side of the PNM codec, path wrappers, and views.
//!
//! Tests named `ok_*` assert the property and pass on the code as it is.
//! Tests named `finding_*` / `borderline_*` assert the *observed* behaviour
//! (so the whole suite is green) and explain in a comment what is off.
#![cfg(feature = "std")]
#![allow(clippy::all)]

use std::cell::{Cell, RefCell};
use std::fs;
use std::io::{self, BufWriter, Cursor, ErrorKind, LineWriter, Write};
use std::panic::{catch_unwind, AssertUnwindSafe};
use std::path::PathBuf;
use std::rc::Rc;
use std::sync::Once;

use retrofire_core::math::{rgb, Color3};
use retrofire_core::util::buf::{AsSlice2, Buf2, MutSlice2, Slice2};
use retrofire_core::util::pnm::{
    self, load_pnm, parse_pnm, read_pnm, save_ppm, write_ppm,
};

// ---------------------------------------------------------------------
// Infrastructure
// ---------------------------------------------------------------------

thread_local! { static QUIET: Cell<bool> = Cell::new(false); }
static HOOK: Once = Once::new();

/// Runs `f`, returning None if it panicked (without printing the message).
fn quietly<T>(f: impl FnOnce() -> T) -> Option<T> {
    HOOK.call_once(|| {
        let old = std::panic::take_hook();
        std::panic::set_hook(Box::new(move |info| {
            if !QUIET.with(|q| q.get()) {
                old(info)
            }
        }));
    });
    QUIET.with(|q| q.set(true));
    let r = catch_unwind(AssertUnwindSafe(f)).ok();
    QUIET.with(|q| q.set(false));
    r
}

/// A pixel whose three bytes are determined by its index; lots of 0x0A
/// ('\n'), '#', ' ', 'P', digits and 0xFF among them.
fn px(i: usize) -> Color3 {
    const T: [u8; 11] =
        [0x0A, b'#', 0x0A, 0x00, 0xFF, b' ', b'P', b'6', 0x0D, 0x0A, 0x80];
    rgb(T[i % 11], T[(i / 2 + 3) % 11], (i as u8).wrapping_mul(37))
}

fn expected_bytes(w: u32, h: u32, pixels: &[Color3]) -> Vec<u8> {
    assert_eq!(pixels.len(), (w * h) as usize);
    let mut v = format!("P6 {w} {h} 255\n").into_bytes();
    for p in pixels {
        v.extend_from_slice(&p.0);
    }
    v
}

#[derive(Clone, Copy, Debug, PartialEq)]
enum Act {
    /// Accept at most this many bytes.
    Take(usize),
    Intr,
    Zero,
    Fail(ErrorKind),
}

#[derive(Default, Debug)]
struct St {
    sink: Vec<u8>,
    writes: usize,
    flushes: usize,
    /// Bytes accepted since the last successful flush.
    dirty: bool,
    empty_writes: usize,
    /// How many times a non-Interrupted fault (Ok(0) / error) was returned
    /// from write.
    faults_fired: usize,
}

struct W {
    st: Rc<RefCell<St>>,
    /// (index of write call, sink length, buf length) -> action
    on_write: Box<dyn FnMut(usize, usize, usize) -> Act>,
    /// index of flush call -> error, if any
    on_flush: Box<dyn FnMut(usize) -> Option<ErrorKind>>,
}

impl Write for W {
    fn write(&mut self, buf: &[u8]) -> io::Result<usize> {
        let mut st = self.st.borrow_mut();
        let i = st.writes;
        st.writes += 1;
        assert!(st.writes < 200_000, "hang: too many write calls");
        if buf.is_empty() {
            st.empty_writes += 1;
            return Ok(0);
        }
        match (self.on_write)(i, st.sink.len(), buf.len()) {
            Act::Take(n) => {
                let n = n.min(buf.len()).max(1);
                st.sink.extend_from_slice(&buf[..n]);
                st.dirty = true;
                Ok(n)
            }
            Act::Intr => Err(ErrorKind::Interrupted.into()),
            Act::Zero => {
                st.faults_fired += 1;
                Ok(0)
            }
            Act::Fail(k) => {
                st.faults_fired += 1;
                Err(k.into())
            }
        }
    }
    fn flush(&mut self) -> io::Result<()> {
        let mut st = self.st.borrow_mut();
        let i = st.flushes;
        st.flushes += 1;
        assert!(st.flushes < 200_000, "hang: too many flush calls");
        match (self.on_flush)(i) {
            None => {
                st.dirty = false;
                Ok(())
            }
            Some(k) => Err(k.into()),
        }
    }
}

#[derive(Clone, Copy, Debug)]
enum Wrap {
    Value,
    Mut,
    DynMut,
    Boxed,
    Buf(usize),
    BufMut(usize),
    Line(usize),
    LineMut(usize),
    BufLine(usize, usize),
    LineBuf(usize, usize),
    BufBufMut(usize, usize),
}

/// Runs write_ppm through the wrapping; returns the result and the state
/// of the innermost writer *at the moment write_ppm returned* (for `*Mut`
/// wrappings the wrapper is still alive then), and the sink after the
/// wrapper was dropped.
fn run(
    wrap: Wrap,
    img: Slice2<Color3>,
    w: W,
) -> (io::Result<()>, Vec<u8>, bool, Vec<u8>, usize) {
    let st = w.st.clone();
    let snap = |st: &Rc<RefCell<St>>| {
        let s = st.borrow();
        (s.sink.clone(), s.dirty)
    };
    let (res, (sink, dirty)) = match wrap {
        Wrap::Value => {
            let r = write_ppm(w, img);
            (r, snap(&st))
        }
        Wrap::Mut => {
            let mut w = w;
            let r = write_ppm(&mut w, img);
            (r, snap(&st))
        }
        Wrap::DynMut => {
            let mut w = w;
            let d: &mut dyn Write = &mut w;
            let r = write_ppm(d, img);
            (r, snap(&st))
        }
        Wrap::Boxed => {
            let b: Box<dyn Write> = Box::new(w);
            let r = write_ppm(b, img);
            (r, snap(&st))
        }
        Wrap::Buf(c) => {
            let r = write_ppm(BufWriter::with_capacity(c, w), img);
            (r, snap(&st))
        }
        Wrap::BufMut(c) => {
            let mut b = BufWriter::with_capacity(c, w);
            let r = write_ppm(&mut b, img);
            let s = snap(&st);
            drop(b);
            (r, s)
        }
        Wrap::Line(c) => {
            let r = write_ppm(LineWriter::with_capacity(c, w), img);
            (r, snap(&st))
        }
        Wrap::LineMut(c) => {
            let mut b = LineWriter::with_capacity(c, w);
            let r = write_ppm(&mut b, img);
            let s = snap(&st);
            drop(b);
            (r, s)
        }
        Wrap::BufLine(c, d) => {
            let b = BufWriter::with_capacity(
                c,
                LineWriter::with_capacity(d, w),
            );
            let r = write_ppm(b, img);
            (r, snap(&st))
        }
        Wrap::LineBuf(c, d) => {
            let b = LineWriter::with_capacity(
                c,
                BufWriter::with_capacity(d, w),
            );
            let r = write_ppm(b, img);
            (r, snap(&st))
        }
        Wrap::BufBufMut(c, d) => {
            let mut b = BufWriter::with_capacity(
                c,
                BufWriter::with_capacity(d, w),
            );
            let r = write_ppm(&mut b, img);
            let s = snap(&st);
            drop(b);
            (r, s)
        }
    };
    let after = st.borrow().sink.clone();
    let fired = st.borrow().faults_fired;
    (res, sink, dirty, after, fired)
}

fn wraps() -> Vec<Wrap> {
    use Wrap::*;
    let mut v = vec![Value, Mut, DynMut, Boxed];
    for c in [0, 1, 2, 3, 5, 10, 11, 12, 13, 64, 8192] {
        v.push(Buf(c));
        v.push(BufMut(c));
        v.push(Line(c));
        v.push(LineMut(c));
    }
    for (c, d) in [(0, 0), (1, 2), (2, 1), (3, 7), (7, 3), (16, 5), (5, 16)] {
        v.push(BufLine(c, d));
        v.push(LineBuf(c, d));
        v.push(BufBufMut(c, d));
    }
    v
}

#[derive(Clone, Copy, Debug, PartialEq)]
enum IntrPat {
    Never,
    EveryOther,
    First(usize),
}
#[derive(Clone, Copy, Debug, PartialEq)]
enum Fault {
    None,
    /// When the sink holds exactly `pos` bytes: act, once or for ever.
    At { pos: usize, act: Act, forever: bool },
}
#[derive(Clone, Copy, Debug, PartialEq)]
enum FlushPat {
    Ok,
    IntrOnce,
    ErrOnce,
    ErrForever,
    /// First call fine, all later ones fail
    ErrLater,
}

fn mk_writer(cap: usize, intr: IntrPat, fault: Fault, fl: FlushPat) -> W {
    let mut fired = false;
    let on_write = move |i: usize, len: usize, _n: usize| -> Act {
        if let Fault::At { pos, act, forever } = fault {
            if (forever && (fired || len >= pos)) || (!forever && !fired && len >= pos)
            {
                // An interruption must not shadow the fault for ever, but
                // may precede it; keep it simple: fault wins.
                fired = true;
                return act;
            }
        }
        match intr {
            IntrPat::EveryOther if i % 2 == 0 => return Act::Intr,
            IntrPat::First(n) if i < n => return Act::Intr,
            _ => {}
        }
        Act::Take(cap)
    };
    let on_flush = move |i: usize| -> Option<ErrorKind> {
        match fl {
            FlushPat::Ok => None,
            FlushPat::IntrOnce => (i == 0).then_some(ErrorKind::Interrupted),
            FlushPat::ErrOnce => (i == 0).then_some(ErrorKind::Other),
            FlushPat::ErrForever => Some(ErrorKind::Other),
            FlushPat::ErrLater => (i > 0).then_some(ErrorKind::Other),
        }
    };
    W {
        st: Rc::default(),
        on_write: Box::new(on_write),
        on_flush: Box::new(on_flush),
    }
}

// ---------------------------------------------------------------------
// (1) write_ppm against every writer behaviour
// ---------------------------------------------------------------------

/// The rule, checked for one run.  Returns whether the run returned Ok.
fn check_run(
    wrap: Wrap,
    img: Slice2<Color3>,
    exp: &[u8],
    cap: usize,
    intr: IntrPat,
    fault: Fault,
    fl: FlushPat,
) -> io::Result<()> {
    let ctx = format!("{wrap:?} cap={cap} {intr:?} {fault:?} {fl:?}");
    let w = mk_writer(cap, intr, fault, fl);
    let out = quietly(|| run(wrap, img, w));
    let Some((res, sink, dirty, after, fired)) = out else {
        panic!("PANIC (or hang guard) in write_ppm: {ctx}");
    };
    match &res {
        Ok(()) => {
            assert_eq!(sink, exp, "Ok(()) but wrong bytes in sink: {ctx}");
            assert!(!dirty, "Ok(()) but last bytes were not flushed: {ctx}");
            assert_eq!(after, exp, "bytes changed after drop: {ctx}");
        }
        Err(_) => {
            assert!(exp.starts_with(&sink), "garbage in sink on Err: {ctx}");
            assert!(
                exp.starts_with(&after),
                "garbage in sink on Err after drop: {ctx}"
            );
        }
    }
    // A writer that never reports anything but short writes and a finite
    // number of interruptions must see success.
    if fault == Fault::None && fl == FlushPat::Ok {
        assert!(res.is_ok(), "spurious failure {res:?}: {ctx}");
    }
    // A real error (or Ok(0)) from write may never be swallowed, not even
    // one that happens only once.
    if fired > 0 {
        assert!(res.is_err(), "error swallowed: {ctx}");
    }
    if fl == FlushPat::ErrForever {
        assert!(res.is_err(), "flush error swallowed: {ctx}");
    }
    res
}

fn small_images() -> Vec<Buf2<Color3>> {
    let mut v = vec![];
    for (w, h) in [(0, 0), (0, 3), (3, 0), (1, 1), (2, 1), (1, 2), (2, 2), (3, 2)]
    {
        v.push(Buf2::new_with((w, h), |x, y| px((y * 5 + x) as usize)));
    }
    // All bytes newline
    v.push(Buf2::new_from((2, 2), std::iter::repeat(rgb(10u8, 10, 10))));
    v
}

#[test]
fn ok_write_ppm_all_writer_behaviours() {
    let mut runs = 0usize;
    let mut oks = 0usize;
    let mut intr_flush_errs = 0usize;
    for img in small_images() {
        let exp = expected_bytes(img.width(), img.height(), img.data());
        let img = img.as_slice2();
        let mut faults = vec![Fault::None];
        for pos in 0..=exp.len() {
            for act in [Act::Zero, Act::Fail(ErrorKind::Other), Act::Intr] {
                for forever in [false, true] {
                    if act == Act::Intr && forever {
                        continue; // only finitely often
                    }
                    faults.push(Fault::At { pos, act, forever });
                }
            }
        }
        for wrap in wraps() {
            for cap in [1usize, 2, 3, 4, usize::MAX] {
                for intr in
                    [IntrPat::Never, IntrPat::EveryOther, IntrPat::First(3)]
                {
                    for &fault in &faults {
                        for fl in [
                            FlushPat::Ok,
                            FlushPat::IntrOnce,
                            FlushPat::ErrOnce,
                            FlushPat::ErrForever,
                            FlushPat::ErrLater,
                        ] {
                            // Thin the cross product a little
                            if fl != FlushPat::Ok
                                && fault != Fault::None
                                && cap != 1
                            {
                                continue;
                            }
                            let r = check_run(
                                wrap, img, &exp, cap, intr, fault, fl,
                            );
                            runs += 1;
                            match r {
                                Ok(()) => oks += 1,
                                Err(e)
                                    if e.kind() == ErrorKind::Interrupted
                                        && fl == FlushPat::IntrOnce =>
                                {
                                    intr_flush_errs += 1
                                }
                                Err(_) => {}
                            }
                        }
                    }
                }
            }
        }
    }
    eprintln!(
        "runs={runs} ok={oks} Err(Interrupted)-from-flush={intr_flush_errs}"
    );
    assert!(oks > 0);
}

/// The named scenarios from the brief, one by one, on a 3x2 image.
#[test]
fn ok_named_scenarios() {
    let img = Buf2::new_with((3, 2), |x, y| px((y * 3 + x) as usize));
    let exp = expected_bytes(3, 2, img.data());
    let s = img.as_slice2();
    let total = exp.len();

    // Interrupted in the middle of the header
    let r = check_run(
        Wrap::Mut,
        s,
        &exp,
        usize::MAX,
        IntrPat::Never,
        Fault::At { pos: 4, act: Act::Intr, forever: false },
        FlushPat::Ok,
    );
    assert!(r.is_ok());
    // Ok(0) on the last byte
    for wrap in wraps() {
        let r = check_run(
            wrap,
            s,
            &exp,
            1,
            IntrPat::Never,
            Fault::At { pos: total - 1, act: Act::Zero, forever: false },
            FlushPat::Ok,
        );
        assert_eq!(r.unwrap_err().kind(), ErrorKind::WriteZero, "{wrap:?}");
    }
    // An error that occurs only in flush
    for wrap in wraps() {
        let r = check_run(
            wrap,
            s,
            &exp,
            usize::MAX,
            IntrPat::Never,
            Fault::None,
            FlushPat::ErrForever,
        );
        assert!(r.is_err(), "{wrap:?}");
    }
    // flush fails once and then succeeds: write_ppm reports the failure
    for wrap in wraps() {
        let r = check_run(
            wrap,
            s,
            &exp,
            usize::MAX,
            IntrPat::Never,
            Fault::None,
            FlushPat::ErrOnce,
        );
        assert!(r.is_err(), "{wrap:?}");
    }
    // 1 byte per call, every other call Interrupted
    for wrap in wraps() {
        let r = check_run(
            wrap,
            s,
            &exp,
            1,
            IntrPat::EveryOther,
            Fault::None,
            FlushPat::Ok,
        );
        assert!(r.is_ok(), "{wrap:?}");
    }
    // BufWriter smaller than the header (header is 11 bytes)
    for c in 0..=12 {
        let r = check_run(
            Wrap::Buf(c),
            s,
            &exp,
            2,
            IntrPat::EveryOther,
            Fault::None,
            FlushPat::Ok,
        );
        assert!(r.is_ok());
    }
}

/// Fixed-size sinks from std: `&mut [u8]` and `Cursor<&mut [u8]>`.
#[test]
fn ok_fixed_size_std_sinks() {
    let img = Buf2::new_with((3, 2), |x, y| px((y * 3 + x) as usize));
    let exp = expected_bytes(3, 2, img.data());
    for len in 0..exp.len() + 3 {
        let mut store = vec![0xEEu8; len];
        let r = write_ppm(&mut store[..], &img);
        if len >= exp.len() {
            r.unwrap();
            assert_eq!(&store[..exp.len()], &exp[..]);
        } else {
            assert_eq!(r.unwrap_err().kind(), ErrorKind::WriteZero);
            assert_eq!(&store[..], &exp[..len]);
        }
        let mut store = vec![0xEEu8; len];
        let r = write_ppm(Cursor::new(&mut store[..]), &img);
        assert_eq!(r.is_ok(), len >= exp.len());
        let mut store = vec![0xEEu8; len];
        let r = write_ppm(
            BufWriter::with_capacity(4, Cursor::new(&mut store[..])),
            &img,
        );
        assert_eq!(r.is_ok(), len >= exp.len(), "len {len}");
    }
    // Growable ones
    let mut c = Cursor::new(Vec::new());
    write_ppm(&mut c, &img).unwrap();
    assert_eq!(c.into_inner(), exp);
    write_ppm(io::sink(), &img).unwrap();
    write_ppm(io::empty(), &img).unwrap();
}

// ---------------------------------------------------------------------
// (3) views
// ---------------------------------------------------------------------

/// Checks one view against independently computed rows.
/// Returns the number of rows that rows() yielded.
fn check_view(
    view: Slice2<Color3>,
    exp_rows: &[Vec<Color3>],
    w: u32,
    what: &str,
) -> usize {
    let h = exp_rows.len() as u32;
    assert_eq!(view.dims(), (w, h), "{what}");
    let rows: Vec<&[Color3]> =
        quietly(|| view.rows().collect()).expect(&format!("rows() panicked: {what}"));
    for r in &rows {
        assert_eq!(r.len(), w as usize, "{what}: row width");
    }
    if w > 0 {
        assert_eq!(rows.len(), h as usize, "{what}: number of rows");
    } else {
        assert!(rows.len() <= h as usize, "{what}: too many rows");
    }
    for (r, e) in rows.iter().zip(exp_rows) {
        assert_eq!(*r, &e[..], "{what}: row content");
    }
    assert_eq!(view.iter().count(), (w * h) as usize, "{what}: iter");
    // Index by row and by position agree with rows()
    if w > 0 {
        for y in 0..h as usize {
            assert_eq!(&view[y], &exp_rows[y][..], "{what}: Index<usize>");
        }
    }

    let flat: Vec<Color3> = exp_rows.iter().flatten().copied().collect();
    let exp = expected_bytes(w, h, &flat);
    let mut out = vec![];
    quietly(|| write_ppm(&mut out, view))
        .expect(&format!("write_ppm panicked: {what}"))
        .unwrap();
    assert_eq!(out, exp, "{what}: bytes written");

    let back = quietly(|| read_pnm(&out[..]))
        .expect(&format!("read_pnm panicked: {what}"));
    let back = back.expect(&format!("read_pnm rejected own output: {what}"));
    assert_eq!(back.dims(), (w, h), "{what}: round-trip dims");
    assert_eq!(back.data(), &flat[..], "{what}: round-trip pixels");
    let back2 = parse_pnm(out.iter().copied()).unwrap();
    assert_eq!(back2.data(), &flat[..]);
    rows.len()
}

#[test]
fn ok_buf2_all_constructors_and_dims() {
    let mut short_rows = vec![];
    for w in 0..=5u32 {
        for h in 0..=5u32 {
            let n = (w * h) as usize;
            let pix: Vec<Color3> = (0..n).map(px).collect();
            let rows: Vec<Vec<Color3>> = (0..h as usize)
                .map(|y| pix[y * w as usize..(y + 1) * w as usize].to_vec())
                .collect();

            let a = Buf2::new_from((w, h), pix.iter().copied());
            let b = Buf2::new_with((w, h), |x, y| px((y * w + x) as usize));
            // Surplus items in the iterator are fine
            let c = Buf2::new_from((w, h), (0..).map(px));
            let mut d: Buf2<Color3> = Buf2::new((w, h));
            d.data_mut().copy_from_slice(&pix);
            let mut e: Buf2<Color3> = Buf2::new((w, h));
            e.fill_with(|x, y| px((y * w + x) as usize));
            let mut f: Buf2<Color3> = Buf2::new((w, h));
            f.copy_from(&a);

            for (i, buf) in [a, b, c, d, e, f].iter().enumerate() {
                let what = format!("Buf2 #{i} {w}x{h}");
                let n = check_view(buf.as_slice2(), &rows, w, &what);
                if n != h as usize {
                    short_rows.push((what.clone(), n));
                }
                // &Buf2 and Buf2 by value
                let flat: Vec<Color3> = pix.clone();
                let exp = expected_bytes(w, h, &flat);
                let mut o1 = vec![];
                write_ppm(&mut o1, buf).unwrap();
                let mut o2 = vec![];
                write_ppm(&mut o2, buf.clone()).unwrap();
                let mut o3 = vec![];
                let mut bc = buf.clone();
                write_ppm(&mut o3, bc.as_mut_slice2()).unwrap();
                assert_eq!(o1, exp);
                assert_eq!(o2, exp);
                assert_eq!(o3, exp);
            }
        }
    }
    eprintln!("zero-width buffers whose rows() is short: {}", short_rows.len());
}

use retrofire_core::util::buf::AsMutSlice2;

/// Every rectangle of a 4x4 buffer, and every sub-rectangle of each of
/// those, by slice and by slice_mut.  Construction panics are recorded,
/// not failed on (the brief restricts itself to views that can be built).
#[test]
fn ok_slices_and_nested_slices() {
    const W: u32 = 4;
    const H: u32 = 4;
    let base = Buf2::new_with((W, H), |x, y| px((y * W + x) as usize));
    let at = |x: u32, y: u32| px((y * W + x) as usize);
    let mut built = 0usize;
    let mut ctor_panics = vec![];
    let mut short = 0usize;

    for l in 0..=W {
        for r in l..=W {
            for t in 0..=H {
                for b in t..=H {
                    let Some(s) = quietly(|| base.slice((l..r, t..b))) else {
                        ctor_panics.push(format!("base.slice(({l}..{r}, {t}..{b}))"));
                        assert!(l == r || t == b, "non-empty rect refused");
                        continue;
                    };
                    built += 1;
                    let rows: Vec<Vec<Color3>> = (t..b)
                        .map(|y| (l..r).map(|x| at(x, y)).collect())
                        .collect();
                    let what = format!("slice(({l}..{r}, {t}..{b}))");
                    let n = check_view(s, &rows, r - l, &what);
                    short += (n != (b - t) as usize) as usize;

                    // Same through slice_mut on a copy
                    let mut copy = base.clone();
                    let m = quietly(|| {
                        let m = copy.slice_mut((l..r, t..b));
                        check_view(m.as_slice2(), &rows, r - l, &what);
                        let mut o = vec![];
                        write_ppm(&mut o, m).unwrap();
                        o
                    })
                    .expect("slice_mut differs from slice");
                    let flat: Vec<_> = rows.iter().flatten().copied().collect();
                    assert_eq!(m, expected_bytes(r - l, b - t, &flat));

                    // Nested
                    let (sw, sh) = (r - l, b - t);
                    for l2 in 0..=sw {
                        for r2 in l2..=sw {
                            for t2 in 0..=sh {
                                for b2 in t2..=sh {
                                    let Some(n) =
                                        quietly(|| s.slice((l2..r2, t2..b2)))
                                    else {
                                        assert!(
                                            l2 == r2 || t2 == b2,
                                            "non-empty nested rect refused"
                                        );
                                        if ctor_panics.len() < 2000 {
                                            ctor_panics.push(format!(
                                                "{what}.slice(({l2}..{r2}, {t2}..{b2}))"
                                            ));
                                        }
                                        continue;
                                    };
                                    built += 1;
                                    let rows: Vec<Vec<Color3>> = (t2..b2)
                                        .map(|y| {
                                            (l2..r2)
                                                .map(|x| at(l + x, t + y))
                                                .collect()
                                        })
                                        .collect();
                                    let what2 = format!(
                                        "{what}.slice(({l2}..{r2}, {t2}..{b2}))"
                                    );
                                    let k = check_view(n, &rows, r2 - l2, &what2);
                                    short += (k != (b2 - t2) as usize) as usize;
                                }
                            }
                        }
                    }
                }
            }
        }
    }
    eprintln!(
        "views built: {built}; zero-width views with short rows(): {short}; \
         constructions that panicked: {}",
        ctor_panics.len()
    );
    for p in ctor_panics.iter().take(12) {
        eprintln!("   ctor panic: {p}");
    }
    // Every construction that panicked is an empty rectangle (asserted
    // above; see finding_empty_slices_panic_at_construction).
    let top: Vec<_> =
        ctor_panics.iter().filter(|p| p.starts_with("base")).collect();
    eprintln!("   of which on the Buf2 itself: {top:?}");
}

/// Slice2::new / MutSlice2::new for every (w, h, stride, len) in a box.
#[test]
fn ok_raw_slice2_new() {
    let data: Vec<Color3> = (0..40).map(px).collect();
    let mut built = 0;
    let mut refused = 0;
    let mut short = vec![];
    for w in 0..=4u32 {
        for h in 0..=4u32 {
            for stride in 0..=6u32 {
                for len in 0..=26usize {
                    let d = &data[..len];
                    let Some(s) = quietly(|| Slice2::new((w, h), stride, d))
                    else {
                        refused += 1;
                        // Anything that fits must be accepted
                        let fits = w <= stride
                            && (h == 0
                                || ((h - 1) * stride + w) as usize <= len);
                        let doc_excuse = (h > 1 && stride as usize > len)
                            || (w > 0 && h as usize > len);
                        assert!(
                            !fits || doc_excuse,
                            "refused a view that fits: {w}x{h} stride {stride} len {len}"
                        );
                        continue;
                    };
                    built += 1;
                    let rows: Vec<Vec<Color3>> = (0..h)
                        .map(|y| {
                            let o = (y * stride) as usize;
                            d[o..o + w as usize].to_vec()
                        })
                        .collect();
                    let what =
                        format!("Slice2::new(({w},{h}), {stride}, len {len})");
                    let n = check_view(s, &rows, w, &what);
                    if n != h as usize {
                        short.push(what.clone());
                    }

                    let mut copy = d.to_vec();
                    let m = MutSlice2::new((w, h), stride, &mut copy[..]);
                    let mut o = vec![];
                    write_ppm(&mut o, m).unwrap();
                    let flat: Vec<_> = rows.iter().flatten().copied().collect();
                    assert_eq!(o, expected_bytes(w, h, &flat), "{what} (mut)");
                }
            }
        }
    }
    eprintln!(
        "Slice2::new: built {built}, refused {refused}, \
         zero-width with short rows(): {}",
        short.len()
    );
}

/// A Slice2::new view that fits its data but is refused, if any.
#[test]
fn borderline_slice2_new_refuses_views_that_fit() {
    // h > 1 and stride > len can only fit when w == 0... and
    // w > 0, h > len cannot fit at all.  So the two extra asserts only
    // ever bite on zero-width views:
    let d: [Color3; 1] = [px(0)];
    // 0 x 3 view with stride 2 over one element: needs (3-1)*2+0 = 4 > 1,
    // does not fit anyway.
    assert!(quietly(|| Slice2::new((0, 3), 2, &d[..])).is_none());
}

// ---------------------------------------------------------------------
// rows() on zero-width views
// ---------------------------------------------------------------------

/// rows() is documented to iterate "over the rows of self"; a 0 x 5 buffer
/// has five (empty) rows, but rows() yields none.  Harmless for write_ppm
/// (no pixels either way) so not a violation of the codec property.
#[test]
fn borderline_rows_of_zero_width_buffer_are_fewer_than_height() {
    let b: Buf2<Color3> = Buf2::new((0, 5));
    assert_eq!(b.height(), 5);
    assert_eq!(b.rows().count(), 0); // not 5
    let base: Buf2<Color3> = Buf2::new((4, 5));
    let s = base.slice((4..4, 0..5));
    assert_eq!(s.dims(), (0, 5));
    assert_eq!(s.rows().count(), 4); // not 5
    let s = base.slice((2..2, 0..5));
    assert_eq!(s.rows().count(), 4); // not 5
    let s = base.slice((0..0, 0..5));
    assert_eq!(s.rows().count(), 4); // not 5
    // and yet it round-trips
    let mut o = vec![];
    write_ppm(&mut o, &b).unwrap();
    assert_eq!(o, b"P6 0 5 255\n");
    assert_eq!(read_pnm(&o[..]).unwrap().dims(), (0, 5));
}

// ---------------------------------------------------------------------
// Construction-time panics on *empty* rectangles (buf.rs)
// ---------------------------------------------------------------------

#[test]
fn finding_empty_slices_panic_at_construction() {
    // 1. The full slice of a valid zero-height buffer.
    let b: Buf2<Color3> = Buf2::new((5, 0));
    assert!(quietly(|| b.slice(..)).is_none(), "Buf2(5x0).slice(..)");
    assert!(quietly(|| b.slice((.., ..))).is_none());
    // ... although the same buffer can be written and read back
    let mut o = vec![];
    write_ppm(&mut o, &b).unwrap();
    assert_eq!(read_pnm(&o[..]).unwrap().dims(), (5, 0));
    // and so can a decoded 5x0 image
    let img = parse_pnm(*b"P6 5 0 255\n").unwrap();
    assert!(quietly(|| img.slice(..)).is_none());

    // 2. The empty tail `(.., h..)`, which resolve_bounds says it permits
    //    ("permits ... top == height ... when the range is empty. This
    //    matches the way slice indexing works"): vec[len..] is fine,
    let v = vec![0u8; 20];
    assert!(v[20..].is_empty());
    //    but
    let b: Buf2<Color3> = Buf2::new((4, 5));
    assert!(quietly(|| b.slice((.., 5..))).is_none());
    assert!(quietly(|| b.slice((1..3, 5..5))).is_none());
    //    whereas these equally empty ones are fine
    assert!(quietly(|| b.slice((0..0, 5..5))).is_some());
    assert!(quietly(|| b.slice((4.., ..))).is_some());
    assert!(quietly(|| b.slice((1..3, 4..4))).is_some());

    // 3. Same for slice_mut and for nested slices
    let mut m: Buf2<Color3> = Buf2::new((4, 5));
    assert!(quietly(|| {
        m.slice_mut((.., 5..));
    })
    .is_none());
    let s = b.slice((1..3, 1..4));
    assert!(quietly(|| s.slice((.., 3..))).is_none());
    assert!(quietly(|| s.slice((.., 2..2))).is_some());
}

// ---------------------------------------------------------------------
// (4) asymmetry between writer and reader
// ---------------------------------------------------------------------

#[test]
fn ok_everything_written_is_read_back() {
    for w in 0..=40u32 {
        for h in 0..=40u32 {
            let img = Buf2::new_with((w, h), |x, y| px((y * 41 + x) as usize));
            let mut o = vec![];
            write_ppm(&mut o, &img).unwrap();
            let back = read_pnm(&o[..]).unwrap();
            assert_eq!(back.dims(), (w, h));
            assert_eq!(back.data(), img.data());
            assert_eq!(back.stride(), w);
            // Also through a strided view of a bigger buffer
            if w >= 2 && h >= 2 {
                let v = img.slice((1..w, 1..h));
                let mut o = vec![];
                write_ppm(&mut o, v).unwrap();
                let back = read_pnm(&o[..]).unwrap();
                assert_eq!(back.dims(), (w - 1, h - 1));
                assert!(back.iter().eq(v.iter()));
            }
        }
    }
    // Long thin ones; zero pixels but large other dimension
    for (w, h) in [
        (100_000, 1),
        (1, 100_000),
        (0, 100_000),
        (100_000, 0),
        (0, u32::MAX),
        (u32::MAX, 0),
        (1000, 1000),
    ] {
        let img: Buf2<Color3> =
            Buf2::new_with((w, h), |x, y| px((x ^ y) as usize));
        let mut o = vec![];
        write_ppm(&mut o, &img).unwrap();
        let back = quietly(|| read_pnm(&o[..]))
            .expect(&format!("read_pnm panicked on own output {w}x{h}"))
            .expect(&format!("read_pnm rejected own output {w}x{h}"));
        assert_eq!(back.dims(), (w, h));
        assert_eq!(back.data(), img.data());
    }
}

/// P3 spelling of what write_ppm wrote decodes the same.
#[test]
fn ok_text_equals_binary() {
    let img = Buf2::new_with((5, 3), |x, y| px((y * 5 + x) as usize));
    let mut bin = vec![];
    write_ppm(&mut bin, &img).unwrap();
    let mut txt = String::from("P3\n# c\n5\t3 #x\n\n255\r");
    for p in img.data() {
        txt += &format!("{} {}\n{}\t", p.0[0], p.0[1], p.0[2]);
    }
    let a = read_pnm(&bin[..]).unwrap();
    let b = read_pnm(txt.as_bytes()).unwrap();
    assert_eq!(a.dims(), b.dims());
    assert_eq!(a.data(), b.data());
}

// ---------------------------------------------------------------------
// (2) path wrappers on the real file system
// ---------------------------------------------------------------------

fn fs_dir(name: &str) -> PathBuf {
    let d = PathBuf::from("/tmp/mut-h3/fs").join(name);
    let _ = fs::remove_dir_all(&d);
    fs::create_dir_all(&d).unwrap();
    d
}

#[test]
fn ok_save_over_longer_file_and_round_trip() {
    let d = fs_dir("over");
    let p = d.join("a.ppm");
    fs::write(&p, vec![b'X'; 100_000]).unwrap();
    let img = Buf2::new_with((7, 5), |x, y| px((y * 7 + x) as usize));
    let v = img.slice((1..6, 1..4));
    save_ppm(&p, v).unwrap();
    let flat: Vec<_> = v.iter().copied().collect();
    assert_eq!(fs::read(&p).unwrap(), expected_bytes(5, 3, &flat));
    let back = load_pnm(&p).unwrap();
    assert_eq!(back.dims(), (5, 3));
    assert_eq!(back.data(), &flat[..]);

    // Bigger than BufWriter's buffer, pixel bytes all newline
    let big = Buf2::new_from((300, 200), std::iter::repeat(rgb(10u8, 10, 10)));
    save_ppm(&p, &big).unwrap();
    let bytes = fs::read(&p).unwrap();
    assert_eq!(bytes.len(), "P6 300 200 255\n".len() + 300 * 200 * 3);
    assert_eq!(load_pnm(&p).unwrap().data(), big.data());

    // Empty images
    for dims in [(0, 0), (0, 7), (7, 0)] {
        let e: Buf2<Color3> = Buf2::new(dims);
        save_ppm(&p, &e).unwrap();
        assert_eq!(
            fs::read(&p).unwrap(),
            format!("P6 {} {} 255\n", dims.0, dims.1).into_bytes()
        );
        assert_eq!(load_pnm(&p).unwrap().dims(), dims);
    }
    // &str, String, &Path, PathBuf all accepted
    save_ppm(p.to_str().unwrap(), &img).unwrap();
    save_ppm(p.to_str().unwrap().to_string(), &img).unwrap();
    save_ppm(p.as_path(), &img).unwrap();
    save_ppm(p.clone(), img).unwrap();
}

#[test]
fn ok_save_error_paths() {
    let d = fs_dir("err");
    let img = Buf2::new_with((3, 2), |x, y| px((y * 3 + x) as usize));

    // Directory
    let e = quietly(|| save_ppm(&d, &img)).expect("panic").unwrap_err();
    assert_eq!(e.kind(), ErrorKind::IsADirectory);
    // Missing parent
    let e = save_ppm(d.join("no/such/x.ppm"), &img).unwrap_err();
    assert_eq!(e.kind(), ErrorKind::NotFound);
    // A file as parent
    fs::write(d.join("f"), b"").unwrap();
    let e = save_ppm(d.join("f/x.ppm"), &img).unwrap_err();
    assert_eq!(e.kind(), ErrorKind::NotADirectory);
    // Empty path
    assert!(save_ppm("", &img).is_err());
    // Path with NUL
    assert!(save_ppm("a\0b", &img).is_err());

    // /dev/full: every size, including header-only and > 8 KiB
    for dims in [(0u32, 0u32), (1, 1), (3, 2), (60, 60), (200, 200)] {
        let im: Buf2<Color3> = Buf2::new(dims);
        let r = quietly(|| save_ppm("/dev/full", &im)).expect("panic");
        let e = r.expect_err(&format!("Ok(()) from /dev/full for {dims:?}"));
        assert_eq!(e.kind(), ErrorKind::StorageFull, "{dims:?}");
        // and directly with a BufWriter by &mut, a LineWriter, and bare
        let f = fs::OpenOptions::new().write(true).open("/dev/full").unwrap();
        assert!(write_ppm(&f, &im).is_err());
        let mut bw = BufWriter::new(&f);
        assert!(write_ppm(&mut bw, &im).is_err());
        assert!(write_ppm(LineWriter::new(&f), &im).is_err());
    }
    // /dev/null
    save_ppm("/dev/null", &img).unwrap();

    // Read-only file.  (The suite runs as root, which ignores mode bits;
    // so a file opened read-only stands in for it on the write_ppm level.)
    let ro = d.join("ro.ppm");
    fs::write(&ro, b"old").unwrap();
    let mut perm = fs::metadata(&ro).unwrap().permissions();
    perm.set_readonly(true);
    fs::set_permissions(&ro, perm).unwrap();
    let r = quietly(|| save_ppm(&ro, &img)).expect("panic");
    let is_root = fs::read_to_string("/proc/self/status")
        .map(|s| s.lines().any(|l| l.starts_with("Uid:\t0\t")))
        .unwrap_or(false);
    if is_root {
        eprintln!("running as root: save_ppm on a 0444 file -> {r:?}");
    } else {
        assert_eq!(r.unwrap_err().kind(), ErrorKind::PermissionDenied);
        assert_eq!(fs::read(&ro).unwrap(), b"old");
    }
    let f = fs::File::open(&ro).unwrap(); // O_RDONLY
    let e = write_ppm(&f, &img).unwrap_err(); // EBADF
    eprintln!("write to O_RDONLY file: {e:?}");
    let e = write_ppm(BufWriter::new(&f), &img).unwrap_err();
    eprintln!("buffered write to O_RDONLY file: {e:?}");
}

#[test]
fn ok_load_error_paths() {
    let d = fs_dir("load");
    assert_eq!(load_pnm(&d).err(), Some(pnm::Error::Io(ErrorKind::IsADirectory)));
    assert_eq!(
        load_pnm(d.join("missing")).err(),
        Some(pnm::Error::Io(ErrorKind::NotFound))
    );
    assert_eq!(load_pnm("/dev/null").err(), Some(pnm::Error::UnexpectedEnd));
    assert_eq!(
        load_pnm("/dev/full").err(),
        Some(pnm::Error::Unsupported([0, 0]))
    );
    assert_eq!(
        load_pnm("/dev/zero").err(),
        Some(pnm::Error::Unsupported([0, 0]))
    );
    assert!(load_pnm("").is_err());
    // Write-only handle given to read_pnm
    let p = d.join("w");
    let f = fs::File::create(&p).unwrap();
    assert!(matches!(read_pnm(&f), Err(pnm::Error::Io(_))));
    // Truncated at every length
    let img = Buf2::new_with((3, 2), |x, y| px((y * 3 + x) as usize));
    let full = expected_bytes(3, 2, img.data());
    for n in 0..full.len() {
        fs::write(&p, &full[..n]).unwrap();
        let r = quietly(|| load_pnm(&p)).expect("panic");
        assert!(r.is_err(), "truncated at {n} accepted");
    }
    fs::write(&p, &full).unwrap();
    assert_eq!(load_pnm(&p).unwrap().data(), img.data());
    // Trailing garbage is ignored
    let mut more = full.clone();
    more.extend_from_slice(b"trailing");
    fs::write(&p, &more).unwrap();
    assert_eq!(load_pnm(&p).unwrap().data(), img.data());
}

/// When save_ppm fails part-way the file that was there before is gone
/// (truncated by File::create).  Allowed by the wording ("may fail with an
/// error"), and documented ("overwrites"); noted as borderline.
#[test]
fn borderline_failed_save_leaves_truncated_file() {
    let d = fs_dir("trunc");
    let p = d.join("x.ppm");
    fs::write(&p, b"precious").unwrap();
    // A view whose construction succeeds and a path that opens; make the
    // write fail by making the target a symlink to /dev/full.
    fs::remove_file(&p).unwrap();
    std::os::unix::fs::symlink("/dev/full", &p).unwrap();
    let img: Buf2<Color3> = Buf2::new((2, 2));
    assert!(save_ppm(&p, &img).is_err());
}

// ---------------------------------------------------------------------
// Known, out-of-scope class (u32 overflow in the constructors, release
// builds only) -- recorded here only for what it does to write_ppm.
// In debug builds the constructors panic with "attempt to multiply with
// overflow", so there is no view to hand to write_ppm.
// ---------------------------------------------------------------------

#[cfg(not(debug_assertions))]
#[test]
fn known_class_u32_overflow_in_constructor_reaches_write_ppm() {
    // 65537 elements = 192 KiB of pixel data, nothing absurd about the
    // allocation; (h - 1) * stride wraps to 0 in Inner::new.
    let data: Vec<Color3> = (0..65537).map(px).collect();

    // (a) Ok(()) with a short file: header promises 65537 pixels, 2 written
    let v = quietly(|| Slice2::new((1, 65537), 65536, &data[..]))
        .expect("constructor refused (would be fine)");
    assert_eq!(v.rows().count(), 2);
    let mut o = vec![];
    write_ppm(&mut o, v).unwrap();
    assert_eq!(o.len(), "P6 1 65537 255\n".len() + 2 * 3);
    assert_eq!(read_pnm(&o[..]).err(), Some(pnm::Error::UnexpectedEnd));

    // (b) panic inside write_ppm, after the header and 65536 pixels
    let v = quietly(|| Slice2::new((65536, 65537), 65536, &data[..]))
        .expect("constructor refused (would be fine)");
    let mut o = vec![];
    assert!(quietly(|| write_ppm(&mut o, v)).is_none());

    // (c) the same from the owned constructor
    let b = quietly(|| Buf2::<Color3>::new((65537, 65537)))
        .expect("constructor refused (would be fine)");
    assert_eq!(b.data().len(), 131073);
    let mut o = vec![];
    assert!(quietly(|| write_ppm(&mut o, &b)).is_none());
}

// ---------------------------------------------------------------------
// Borderline: P5/P4 read to the end of the input, P6/P3/P2 stop after the
// last pixel.
// ---------------------------------------------------------------------

struct Counting<R>(R, Rc<Cell<usize>>);
impl<R: io::Read> io::Read for Counting<R> {
    fn read(&mut self, b: &mut [u8]) -> io::Result<usize> {
        let n = self.0.read(b)?;
        self.1.set(self.1.get() + n);
        Ok(n)
    }
}

#[test]
fn borderline_p5_and_p4_consume_and_store_all_trailing_input() {
    use io::Read;
    let tail = 3_000_000u64;
    for (hdr, stops) in [
        (&b"P6 1 1 255\nabc"[..], true),
        (&b"P3 1 1 255\n1 2 3 "[..], true),
        (&b"P2 1 1 255\n1 "[..], true),
        (&b"P5 1 1 255\na"[..], false),
        (&b"P4 1 1\na"[..], false),
    ] {
        let n = Rc::new(Cell::new(0));
        let r = Counting(hdr.chain(io::repeat(b'7').take(tail)), n.clone());
        let img = read_pnm(r).unwrap();
        assert_eq!(img.dims(), (1, 1));
        assert_eq!(img.data().len(), 1);
        let consumed = n.get() as u64;
        if stops {
            assert!(consumed <= hdr.len() as u64 + 1, "{consumed}");
        } else {
            // Everything was pulled in (and held as 3 or 24 bytes per input
            // byte before being cut down to one pixel).  With an endless
            // reader (`io::repeat` without `take`) this never returns.
            assert_eq!(consumed, hdr.len() as u64 + tail);
        }
    }
}

/// flush() returning Interrupted is passed on as an error, not retried
/// (write() returning Interrupted is retried).  Allowed by the wording.
#[test]
fn borderline_interrupted_flush_is_an_error() {
    let img = Buf2::new_with((2, 2), |x, y| px((y * 2 + x) as usize));
    let exp = expected_bytes(2, 2, img.data());
    let w = mk_writer(usize::MAX, IntrPat::Never, Fault::None, FlushPat::IntrOnce);
    let st = w.st.clone();
    let e = write_ppm(w, &img).unwrap_err();
    assert_eq!(e.kind(), ErrorKind::Interrupted);
    // everything was handed over, only the flush is outstanding
    assert_eq!(st.borrow().sink, exp);
    assert!(st.borrow().dirty);
}

// ---------------------------------------------------------------------
// More views: sub-rectangles of raw Slice2::new views (surplus data,
// stride > len single rows), three levels deep.
// ---------------------------------------------------------------------

#[test]
fn ok_nested_slices_of_raw_views() {
    let data: Vec<Color3> = (0..40).map(px).collect();
    let mut built = 0usize;
    let mut refused_empty = 0usize;
    for w in 0..=3u32 {
        for h in 0..=3u32 {
            for stride in [w, w + 1, w + 3, 100] {
                for len in [0usize, 1, 2, 3, 5, 8, 12, 20, 40] {
                    let d = &data[..len];
                    let Some(s) = quietly(|| Slice2::new((w, h), stride, d))
                    else {
                        continue;
                    };
                    let at = |x: u32, y: u32| d[(y * stride + x) as usize];
                    for l in 0..=w {
                        for r in l..=w {
                            for t in 0..=h {
                                for b in t..=h {
                                    let what = format!(
                                        "Slice2::new(({w},{h}),{stride},len {len}).slice(({l}..{r},{t}..{b}))"
                                    );
                                    let Some(n) = quietly(|| s.slice((l..r, t..b)))
                                    else {
                                        assert!(l == r || t == b, "{what} refused");
                                        refused_empty += 1;
                                        continue;
                                    };
                                    built += 1;
                                    let rows: Vec<Vec<Color3>> = (t..b)
                                        .map(|y| (l..r).map(|x| at(x, y)).collect())
                                        .collect();
                                    check_view(n, &rows, r - l, &what);
                                    // third level: drop one column and row
                                    if r - l >= 1 && b - t >= 1 {
                                        let Some(n3) = quietly(|| n.slice((1.., 1..)))
                                        else {
                                            assert!(r - l == 1 || b - t == 1, "{what} L3");
                                            refused_empty += 1;
                                            continue;
                                        };
                                        let rows3: Vec<Vec<Color3>> = (t + 1..b)
                                            .map(|y| {
                                                (l + 1..r).map(|x| at(x, y)).collect()
                                            })
                                            .collect();
                                        check_view(n3, &rows3, r - l - 1, &what);
                                        built += 1;
                                    }
                                }
                            }
                        }
                    }
                }
            }
        }
    }
    eprintln!("raw nested: built {built}, empty rects refused {refused_empty}");
}

/// Several images written one after the other to one writer can be read
/// back one after the other from one reader (P6 reads exactly what it
/// needs).
#[test]
fn ok_concatenated_images_round_trip() {
    let imgs: Vec<Buf2<Color3>> = small_images();
    let mut out = BufWriter::with_capacity(7, Vec::new());
    for i in &imgs {
        write_ppm(&mut out, i).unwrap();
    }
    let bytes = out.into_inner().unwrap();
    let mut r = &bytes[..];
    for i in &imgs {
        let b = read_pnm(&mut r).unwrap();
        assert_eq!(b.dims(), i.dims());
        assert_eq!(b.data(), i.data());
    }
    assert!(r.is_empty());
}

// ---------------------------------------------------------------------
// Adjacent defect in buf.rs (not a clause of the codec property):
// fill() on an *empty* or surplus-backed mutable view writes outside it.
// ---------------------------------------------------------------------

#[test]
fn finding_fill_on_empty_view_clobbers_the_buffer() {
    let mut img = Buf2::new_with((4, 5), |x, y| px((y * 4 + x) as usize));
    let before = img.data().to_vec();
    // A zero-width view: contains no pixel.
    let mut v = img.slice_mut((2..2, ..));
    assert_eq!(v.dims(), (0, 5));
    assert!(v.is_empty());
    v.fill(rgb(1, 2, 3));
    let changed = img
        .data()
        .iter()
        .zip(&before)
        .filter(|(a, b)| a != b)
        .count();
    assert_eq!(changed, 16); // should be 0
    // ... and what gets saved is the clobbered image
    let mut o = vec![];
    write_ppm(&mut o, &img).unwrap();
    assert_ne!(o, expected_bytes(4, 5, &before));

    // fill_with on the same view is correct
    let mut img = Buf2::new_with((4, 5), |x, y| px((y * 4 + x) as usize));
    img.slice_mut((2..2, ..)).fill_with(|_, _| rgb(1, 2, 3));
    assert_eq!(img.data(), &before[..]);

    // Raw views over surplus data: a 2x1 view of five elements
    let mut d: Vec<Color3> = (0..5).map(px).collect();
    MutSlice2::new((2, 1), 5, &mut d[..]).fill(rgb(9, 9, 9));
    assert_eq!(d.iter().filter(|c| **c == rgb(9, 9, 9)).count(), 5); // not 2
    // a 2x2 view, stride 2, of ten elements
    let mut d: Vec<Color3> = (0..10).map(px).collect();
    MutSlice2::new((2, 2), 2, &mut d[..]).fill(rgb(9, 9, 9));
    assert_eq!(d.iter().filter(|c| **c == rgb(9, 9, 9)).count(), 10); // not 4
}
