//! Demo: the OBJ property "parsing is total and faithful" holds.
//!
//! * A well-formed file using all four index forms, comments, blank lines,
//!   indentation, exponent notation and faces placed before the vertices
//!   they use parses to exactly the listed mesh, also when it is delivered
//!   by a reader that hands out one byte per call and is now and then
//!   interrupted (`ErrorKind::Interrupted`).
//! * A reader that fails hard never makes `read_obj` return `Ok`.
//! * Malformed inputs give `Err` or a builder that builds; never a panic.
//!
//! Copy to `geom/tests/demo.rs`.

use std::io::{self, ErrorKind, Read};
use std::panic::{catch_unwind, AssertUnwindSafe};

use re::geom::Tri;
use re::math::pt3;
use retrofire_geom::io::{parse_obj, read_obj};

/// Hands out one byte per successful call, whatever the buffer size, and
/// reports `Interrupted` on every third call. Optionally fails hard once
/// `fail_at` bytes have been delivered.
struct Trickle<'a> {
    data: &'a [u8],
    pos: usize,
    calls: usize,
    fail_at: Option<usize>,
}

impl<'a> Trickle<'a> {
    fn new(data: &'a [u8]) -> Self {
        Self { data, pos: 0, calls: 0, fail_at: None }
    }
    fn failing(data: &'a [u8], fail_at: usize) -> Self {
        Self { data, pos: 0, calls: 0, fail_at: Some(fail_at) }
    }
}

impl Read for Trickle<'_> {
    fn read(&mut self, buf: &mut [u8]) -> io::Result<usize> {
        self.calls += 1;
        if self.calls % 3 == 0 {
            return Err(ErrorKind::Interrupted.into());
        }
        if self.fail_at == Some(self.pos) {
            return Err(ErrorKind::BrokenPipe.into());
        }
        if buf.is_empty() || self.pos == self.data.len() {
            return Ok(0);
        }
        buf[0] = self.data[self.pos];
        self.pos += 1;
        Ok(1)
    }
}

const WELL_FORMED: &str = "\
# A demo mesh; faces come first
f 1 2 3
  f 2/1 3/2 4/3

\tf 1//1 3//2 4//1
f 4/3/2 1/1/1 2/2/2
   # an indented comment

v 0.0 0.0 0.0
   v 1.5 -2.25 3.0
v 1.0e2 -2.5e-1 3E+1
vt 0.0 0.0
vt 1.0 0.5
#comment-without-space
\tv -0.125 4 5e0
vt 0.25 0.75
vn 0 0 1

vn 0.0 1.0 0.0
f 3 2 1
f 1 2 3
";

fn check_well_formed(b: re::geom::mesh::Builder<()>) {
    let mesh = b.build();
    let pos: Vec<_> = mesh.verts.iter().map(|v| v.pos).collect();
    assert_eq!(
        pos,
        vec![
            pt3(0.0, 0.0, 0.0),
            pt3(1.5, -2.25, 3.0),
            pt3(100.0, -0.25, 30.0),
            pt3(-0.125, 4.0, 5.0),
        ]
    );
    assert_eq!(
        mesh.faces,
        vec![
            Tri([0, 1, 2]),
            Tri([1, 2, 3]),
            Tri([0, 2, 3]),
            Tri([3, 0, 1]),
            Tri([2, 1, 0]),
            // A duplicate of the first face is kept
            Tri([0, 1, 2]),
        ]
    );
}

#[test]
fn well_formed_from_slice() {
    check_well_formed(parse_obj(WELL_FORMED.bytes()).expect("parse_obj"));
    check_well_formed(read_obj(WELL_FORMED.as_bytes()).expect("read_obj"));
}

#[test]
fn well_formed_one_byte_at_a_time_with_interrupts() {
    let r = Trickle::new(WELL_FORMED.as_bytes());
    check_well_formed(read_obj(r).expect("read_obj via trickling reader"));

    // By mutable reference too, as `load_obj` does
    let mut r = Trickle::new(WELL_FORMED.as_bytes());
    check_well_formed(read_obj(&mut r).expect("read_obj via &mut reader"));
}

#[test]
fn well_formed_without_trailing_newline() {
    let text = WELL_FORMED.trim_end();
    assert!(!text.ends_with('\n'));
    check_well_formed(parse_obj(text.bytes()).expect("parse_obj"));
    check_well_formed(read_obj(Trickle::new(text.as_bytes())).expect("read_obj"));
}

#[test]
fn hard_read_error_never_gives_ok() {
    let data = WELL_FORMED.as_bytes();
    // Fail after every possible prefix, including line ends, where the
    // prefix is in itself a plausible file
    for at in 0..=data.len() {
        let res = catch_unwind(AssertUnwindSafe(|| {
            read_obj(Trickle::failing(data, at)).is_err()
        }));
        assert_eq!(res.ok(), Some(true), "read error after {at} bytes");
    }
}

/// Err or a builder that builds; never a panic.
fn total(input: &[u8]) {
    let shown = String::from_utf8_lossy(input).into_owned();
    for via_reader in [false, true] {
        let res = catch_unwind(AssertUnwindSafe(|| {
            let res = if via_reader {
                read_obj(Trickle::new(input))
            } else {
                parse_obj(input.iter().copied())
            };
            if let Ok(b) = res {
                let n = b.mesh.verts.len();
                for Tri(vs) in &b.mesh.faces {
                    assert!(vs.iter().all(|&i| i < n), "dangling index");
                }
                let m = b.build();
                assert_eq!(m.verts.len(), n);
            }
        }));
        assert!(res.is_ok(), "panicked (reader: {via_reader}) on {shown:?}");
    }
}

#[test]
fn malformed_inputs_never_panic() {
    let inputs: &[&[u8]] = &[
        b"",
        b"\n\n  \n",
        b"f",
        b"f 1 2",
        b"f 1 2 3",
        b"f 1 2 3\n",
        b"f 0 1 2\nv 0 0 0\nv 0 0 0\nv 0 0 0\n",
        b"f -1 -2 -3\nv 0 0 0\nv 0 0 0\nv 0 0 0\n",
        b"v 0 0 0\nv 0 0 0\nv 0 0 0\nf -1 -2 -3\n",
        b"v 0 0 0\nf -1 -2 -3\n",
        b"v 0 0 0\nf -0 1 1\n",
        b"v 0 0 0\nf 1 1 -18446744073709551615\n",
        b"v 0 0 0\nf 1 1 -18446744073709551616\n",
        b"v 0 0 0\nf 1 1 -9223372036854775808\n",
        b"f 18446744073709551615 1 1\nv 0 0 0\n",
        b"f 18446744073709551616 1 1\nv 0 0 0\n",
        b"f 99999999999999999999999999 1 1\nv 0 0 0\n",
        b"f 1 2 4\nv 0 0 0\nv 0 0 0\nv 0 0 0\n",
        b"f 1/1 1/2 1/1\nv 0 0 0\nvt 0 0\n",
        b"f 1//1 1//2 1//1\nv 0 0 0\nvn 0 0 1\n",
        b"f 1/1/1 1/1/3 1/1/1\nv 0 0 0\nvn 0 0 1\nvt 0 0\n",
        b"f 1/0 1/1 1/1\nv 0 0 0\nvt 0 0\n",
        b"f 1/ 1/ 1/\nv 0 0 0\n",
        b"f 1// 1// 1//\nv 0 0 0\n",
        b"f / / /\nv 0 0 0\n",
        b"f 1/1/1/1 1 1\nv 0 0 0\nvt 0 0\nvn 0 0 1\n",
        b"f a b c\n",
        b"v\n",
        b"v 1\n",
        b"v 1 2\n",
        b"v 1 2 x\n",
        b"v 1 2 3 4\nf 1 1 1\n",
        b"v 1 2 3 4 5 6 7\n",
        b"v nan inf -infinity\nf 1 1 1\n",
        b"v NaN +inf -INF\n",
        b"v 1e999 -1e999 1e-999\nf 1 1 1\n",
        b"v +1 1. .5\nf +1 +1 +1\n",
        b"v . + -\n",
        b"vt\n",
        b"vt 1\n",
        b"vt 1 2 3\n",
        b"vt nan inf\n",
        b"vn 1 2\n",
        b"vn inf nan 0\n",
        b"v 0 0 0\r\nv 1 0 0\r\nv 0 1 0\r\nf 1 2 3\r\n",
        b"v 0 0 0 # trailing\nf 1 1 1 # trailing\n",
        b"v 0 0 0\nv 1 0 0\nv 0 1 0\nv 1 1 0\nf 1 2 3 4\n",
        b"v 0 0 0\nv 1 0 0\nv 0 1 0\nf 1 2 3 4\n",
        b"f 1 2 3 4 5\nv 0 0 0\nv 1 0 0\nv 0 1 0\nv 1 1 0\n",
        b"v 0 0 0\nf 1 1 1 x\n",
        b"v 0 0 0\nf 1 1 1 0\n",
        b"v 0 0 0\nf 1 1 1 -1\n",
        b"v 0 0 0\nf 1 1 1 1/9\n",
        b"g group\no object\ns off\nusemtl m\nmtllib m.mtl\nv 0 0 0\nf 1 1 1\n",
        b"vp 0.5 0.5\nl 1 2\np 1\n",
        b"g\nv 0 0 0\nf 1 2 3\n",
        b"xyz 1 2 3\n",
        b"vx 1 2 3\n",
        b"fv 1 2 3\n",
        b"\xff\xfe\x80\n",
        b"v \xff 0 0\n",
        b"v 0 0 0\nf 1 1 \xe9\n",
        b"# \xff\xff comment\nv 0 0 0\n",
        b"\xc3\xa4 1 2 3\n",
        b"\0\0\0",
        b"v 0 0 0\0\nf 1 1 1\n",
        b"v 0\x0b0 0\n",
        b"v 0 0 0\x0cf 1 1 1\n",
        b"f 1 2 3\nv 0 0 0\nv 0 0 0",
        b"f 1 2 3\nv 0 0 0\nv 0 0 0\nv 0 0",
    ];
    for input in inputs {
        total(input);
    }
}

#[test]
fn truncations_and_byte_flips_never_panic() {
    let data = WELL_FORMED.as_bytes();
    for end in 0..=data.len() {
        total(&data[..end]);
    }
    // A cheap deterministic mutation sweep
    let subst = [b'0', b'-', b'/', b' ', b'\n', b'9', b'f', b'v', 0xff, b'#'];
    for (i, _) in data.iter().enumerate() {
        let mut m = data.to_vec();
        m[i] = subst[i % subst.len()];
        total(&m);
        m.remove(i);
        total(&m);
    }
}

// --- Specific to this change: negative indices are outside the scope ---

/// The property only covers one-based positive indices in well-formed
/// files. A negative index must not panic and must not give a dangling
/// face; refusing it or resolving it as the OBJ spec says (relative to the
/// items defined above the face) are both fine.
#[test]
fn negative_indices_are_refused_or_resolved_soundly() {
    let text = "v 0 0 0\nv 1 0 0\nv 0 1 0\nf -3 -2 -1\nvt 0 0\nvn 0 0 1\n\
                v 0 0 1\nf -1/-1/-1 -2//1 1/1\nf 1 2 -1\n";
    for via_reader in [false, true] {
        let res = if via_reader {
            read_obj(Trickle::new(text.as_bytes()))
        } else {
            parse_obj(text.bytes())
        };
        let Ok(b) = res else { continue };
        let mesh = b.build();
        assert_eq!(mesh.verts.len(), 4);
        assert_eq!(mesh.verts[3].pos, pt3(0.0, 0.0, 1.0));
        assert_eq!(
            mesh.faces,
            vec![Tri([0, 1, 2]), Tri([3, 2, 0]), Tri([0, 1, 3])]
        );
    }
    // Reaching before the first item, also for vertices defined only later
    total(b"f -1 -2 -3\nv 0 0 0\nv 1 0 0\nv 0 1 0\n");
    total(b"v 0 0 0\nf -1 -2 -1\n");
    total(b"v 0 0 0\nf -1 -1 -1\n");
    total(b"v 0 0 0\nf -1/-1 -1 -1\n");
    total(b"v 0 0 0\nf -1//-1 -1 -1\n");
    total(b"v 0 0 0\nvt 0 0\nf -1/-1/-1 -1/-1 -1//-2\n");
    total(b"v 0 0 0\nf -0 -0 -0\n");
    total(b"v 0 0 0\nf --1 -+1 -\n");
    total(b"v 0 0 0\nf +-1 1 1\n");
    total(b"v 0 0 0\nf -1e0 1 1\n");
    total(b"v 0 0 0\nf -18446744073709551615 1 1\n");
    total(b"v 0 0 0\nf -18446744073709551616 1 1\n");
    total(b"v 0 0 0\nf -9223372036854775808 -9223372036854775809 1\n");
    total(b"v 0 0 0\nf -1 1 18446744073709551615\n");
    // Absolute indices still may point forwards
    check_well_formed(parse_obj(WELL_FORMED.bytes()).unwrap());
}
