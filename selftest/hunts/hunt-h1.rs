//! Defect hunt for the PNM codec (core/src/util/pnm.rs) and Buf2/Slice2
//! (core/src/util/buf.rs).
//!
//! Naming convention:
//!   viol_*    - reproduces a violation of the stated property; the test
//!               PASSES when the violation is present (it asserts the bad
//!               behaviour), so that the whole file stays green.
//!   border_*  - demonstrates a borderline behaviour (passes when present).
//!   ok_*      - things that were tried and found to hold (ordinary tests).
//!
//! Run:
//!   cargo test -p retrofire-core --features std --offline --test hunt
//!   cargo test -p retrofire-core --features std --offline --test hunt --release

use std::io::{self, BufReader, BufWriter, Cursor, ErrorKind, LineWriter, Read, Write};
use std::panic::{catch_unwind, AssertUnwindSafe};

use retrofire_core::math::{rgb, Color3};
use retrofire_core::util::buf::{AsSlice2, Buf2, MutSlice2, Slice2};
use retrofire_core::util::pnm::{self, parse_pnm, read_pnm, write_ppm};

// ---------------------------------------------------------------- helpers

#[derive(Clone)]
struct Rng(u64);
impl Rng {
    fn new(seed: u64) -> Self {
        Rng(seed.wrapping_mul(0x9E37_79B9_7F4A_7C15) ^ 0xD1B5_4A32_D192_ED03)
    }
    fn next(&mut self) -> u64 {
        // xorshift64*
        let mut x = self.0;
        x ^= x >> 12;
        x ^= x << 25;
        x ^= x >> 27;
        self.0 = x;
        x.wrapping_mul(0x2545_F491_4F6C_DD1D)
    }
    fn below(&mut self, n: u64) -> u64 {
        if n == 0 { 0 } else { self.next() % n }
    }
    fn chance(&mut self, num: u64, den: u64) -> bool {
        self.below(den) < num
    }
    fn pick<'a, T>(&mut self, xs: &'a [T]) -> &'a T {
        &xs[self.below(xs.len() as u64) as usize]
    }
}

/// Bytes that are "interesting" right after a header.
const NASTY: &[u8] = b" \t\n\r\x0b\x0c#0123456789+-P";

fn pixel_bytes(rng: &mut Rng, n: usize) -> Vec<u8> {
    let mode = rng.below(3);
    (0..n)
        .map(|_| match mode {
            0 => rng.next() as u8,
            1 => *rng.pick(NASTY),
            _ => {
                if rng.chance(1, 2) { *rng.pick(NASTY) } else { rng.next() as u8 }
            }
        })
        .collect()
}

fn image(rng: &mut Rng, w: u32, h: u32) -> Buf2<Color3> {
    let bytes = pixel_bytes(rng, (w * h * 3) as usize);
    Buf2::new_from(
        (w, h),
        bytes.chunks(3).map(|c| rgb(c[0], c[1], c[2])),
    )
}

fn pixels_of(s: &impl AsSlice2<Color3>) -> Vec<[u8; 3]> {
    // Independent of rows(): index every pixel.
    let s = s.as_slice2();
    let mut v = vec![];
    for y in 0..s.height() {
        for x in 0..s.width() {
            v.push(s[[x, y]].0);
        }
    }
    v
}

fn quiet<R>(f: impl FnOnce() -> R) -> std::thread::Result<R> {
    catch_unwind(AssertUnwindSafe(f))
}

fn panic_msg(e: &Box<dyn std::any::Any + Send>) -> String {
    if let Some(s) = e.downcast_ref::<String>() {
        s.clone()
    } else if let Some(s) = e.downcast_ref::<&str>() {
        s.to_string()
    } else {
        "<non-string panic>".into()
    }
}

// A reader that follows a script of legal-but-awkward behaviours.
#[derive(Clone, Debug)]
enum R {
    /// Deliver at most n bytes (n >= 1) of the remaining data.
    Short(usize),
    Interrupted,
    /// A hard error of the given kind.
    Fail(ErrorKind),
    /// Ok(0) although data remains ("end of file for now").
    Zero,
}
struct ScriptReader {
    data: Vec<u8>,
    pos: usize,
    script: Vec<R>,
    step: usize,
    /// What to do when the script runs out: deliver everything.
    calls: usize,
}
impl ScriptReader {
    fn new(data: &[u8], script: Vec<R>) -> Self {
        Self { data: data.to_vec(), pos: 0, script, step: 0, calls: 0 }
    }
}
impl Read for ScriptReader {
    fn read(&mut self, buf: &mut [u8]) -> io::Result<usize> {
        self.calls += 1;
        assert!(self.calls < 50_000_000, "reader called too often: hang?");
        if buf.is_empty() {
            return Ok(0);
        }
        let act = self.script.get(self.step).cloned().unwrap_or(R::Short(usize::MAX));
        self.step += 1;
        match act {
            R::Short(n) => {
                let n = n.max(1).min(buf.len()).min(self.data.len() - self.pos);
                buf[..n].copy_from_slice(&self.data[self.pos..self.pos + n]);
                self.pos += n;
                Ok(n)
            }
            R::Interrupted => Err(ErrorKind::Interrupted.into()),
            R::Fail(k) => Err(k.into()),
            R::Zero => Ok(0),
        }
    }
}

#[derive(Clone, Debug)]
enum W {
    Short(usize),
    Interrupted,
    Fail(ErrorKind),
    Zero,
}
/// A writer following a script; remembers what it accepted, and separately
/// what has been made durable by a successful flush.
struct ScriptWriter {
    accepted: Vec<u8>,
    script: Vec<W>,
    step: usize,
    flush_script: Vec<Option<ErrorKind>>,
    fstep: usize,
    flushed_len: usize,
}
impl ScriptWriter {
    fn new(script: Vec<W>, flush_script: Vec<Option<ErrorKind>>) -> Self {
        Self { accepted: vec![], script, step: 0, flush_script, fstep: 0, flushed_len: 0 }
    }
}
impl Write for ScriptWriter {
    fn write(&mut self, buf: &[u8]) -> io::Result<usize> {
        if buf.is_empty() {
            return Ok(0);
        }
        let act = self.script.get(self.step).cloned().unwrap_or(W::Short(usize::MAX));
        self.step += 1;
        match act {
            W::Short(n) => {
                let n = n.max(1).min(buf.len());
                self.accepted.extend_from_slice(&buf[..n]);
                Ok(n)
            }
            W::Interrupted => Err(ErrorKind::Interrupted.into()),
            W::Fail(k) => Err(k.into()),
            W::Zero => Ok(0),
        }
    }
    fn flush(&mut self) -> io::Result<()> {
        let act = self.flush_script.get(self.fstep).cloned().unwrap_or(None);
        self.fstep += 1;
        match act {
            None => {
                self.flushed_len = self.accepted.len();
                Ok(())
            }
            Some(k) => Err(k.into()),
        }
    }
}

fn reference_ppm(s: &impl AsSlice2<Color3>) -> Vec<u8> {
    let s = s.as_slice2();
    let mut v = format!("P6 {} {} 255\n", s.width(), s.height()).into_bytes();
    for p in pixels_of(&s) {
        v.extend_from_slice(&p);
    }
    v
}

// =====================================================================
// OK: round trips of owned buffers and views
// =====================================================================

fn check_round_trip(s: &impl AsSlice2<Color3>, what: &str) {
    let s = s.as_slice2();
    let mut out = vec![];
    write_ppm(&mut out, s).unwrap_or_else(|e| panic!("{what}: write failed {e}"));
    assert_eq!(out, reference_ppm(&s), "{what}: bytes differ");
    let back = parse_pnm(out.iter().copied())
        .unwrap_or_else(|e| panic!("{what}: read back failed {e:?}"));
    assert_eq!(back.dims(), s.dims(), "{what}: dims");
    assert_eq!(back.data().len(), (s.width() * s.height()) as usize, "{what}: count");
    assert_eq!(pixels_of(&back), pixels_of(&s), "{what}: pixels");
    let back2 = read_pnm(&out[..]).unwrap();
    assert_eq!(back2.dims(), s.dims());
    assert_eq!(pixels_of(&back2), pixels_of(&s));
}

#[test]
fn ok_round_trip_owned_and_views() {
    let mut rng = Rng::new(1);
    for case in 0..3000 {
        let w = rng.below(9) as u32;
        let h = rng.below(9) as u32;
        let mut buf = image(&mut rng, w, h);
        check_round_trip(&buf, &format!("case {case} owned {w}x{h}"));
        check_round_trip(&&buf, "ref");

        // any sub-rectangle that resolve_bounds accepts and whose data range
        // is in bounds (t < h, or the degenerate l == r == 0 case)
        for _ in 0..6 {
            let l = rng.below(w as u64 + 1) as u32;
            let r = l + rng.below((w - l) as u64 + 1) as u32;
            let t = rng.below(h as u64 + 1) as u32;
            let b = t + rng.below((h - t) as u64 + 1) as u32;
            let res = quiet(|| {
                let v = buf.slice((l..r, t..b));
                (v.dims(), v.stride())
            });
            let Ok((dims, _)) = res else { continue };
            assert_eq!(dims, (r - l, b - t));
            let v = buf.slice((l..r, t..b));
            check_round_trip(&v, &format!("case {case} view {l}..{r},{t}..{b} of {w}x{h}"));
            // view of a view
            let (vw, vh) = v.dims();
            let l2 = rng.below(vw as u64 + 1) as u32;
            let r2 = l2 + rng.below((vw - l2) as u64 + 1) as u32;
            let t2 = rng.below(vh as u64 + 1) as u32;
            let b2 = t2 + rng.below((vh - t2) as u64 + 1) as u32;
            if quiet(|| { v.slice((l2..r2, t2..b2)); }).is_ok() {
                let vv = v.slice((l2..r2, t2..b2));
                check_round_trip(&vv, &format!("case {case} view of view"));
            }
            // the same as a mutable view
            let mv = buf.slice_mut((l..r, t..b));
            check_round_trip(&mv, "mut view");
        }
    }
}

#[test]
fn ok_round_trip_slice2_new_any_geometry() {
    // Slice2::new / MutSlice2::new with arbitrary stride, surplus data etc.
    let mut rng = Rng::new(2);
    let mut constructed = 0;
    for _ in 0..20000 {
        let w = rng.below(6) as u32;
        let h = rng.below(6) as u32;
        let stride = rng.below(9) as u32;
        let len = rng.below(60) as usize;
        let bytes = pixel_bytes(&mut rng, len * 3);
        let mut data: Vec<Color3> =
            bytes.chunks(3).map(|c| rgb(c[0], c[1], c[2])).collect();
        if quiet(|| { Slice2::new((w, h), stride, &data[..]); }).is_err() {
            continue;
        }
        constructed += 1;
        let v = Slice2::new((w, h), stride, &data[..]);
        // expected pixels computed from first principles
        let mut exp = vec![];
        for y in 0..h {
            for x in 0..w {
                exp.push(data[(y * stride + x) as usize].0);
            }
        }
        let mut out = vec![];
        write_ppm(&mut out, v).unwrap();
        let mut want = format!("P6 {w} {h} 255\n").into_bytes();
        exp.iter().for_each(|p| want.extend_from_slice(p));
        assert_eq!(out, want, "Slice2::new(({w},{h}),{stride},len {len})");
        let back = read_pnm(&out[..]).unwrap();
        assert_eq!(back.dims(), (w, h));
        assert_eq!(pixels_of(&back), exp);

        let mv = MutSlice2::new((w, h), stride, &mut data[..]);
        let mut out2 = vec![];
        write_ppm(&mut out2, mv).unwrap();
        assert_eq!(out2, want);
    }
    assert!(constructed > 2000, "{constructed}");
}

#[test]
fn ok_zero_and_extreme_dims_round_trip() {
    for dims in [(0, 0), (0, 1), (1, 0), (0, 7), (7, 0), (0, u32::MAX), (u32::MAX, 0)] {
        if cfg!(target_pointer_width = "32") && (dims.0 > 7 || dims.1 > 7) {
            continue; // see viol_v4
        }
        let b: Buf2<Color3> = Buf2::new_from(dims, []);
        check_round_trip(&b, &format!("{dims:?}"));
    }
    if cfg!(target_pointer_width = "32") {
        return; // see viol_v4
    }
    let txt = format!("P6 0 {} 255\n", u32::MAX);
    let b = parse_pnm(txt.bytes()).unwrap();
    assert_eq!(b.dims(), (0, u32::MAX));
    assert_eq!(b.data().len(), 0);
}

// =====================================================================
// OK: decoding is total (fuzz), dims/pixel count agree with the header
// =====================================================================

/// An independent, deliberately simple header reader used as oracle for
/// dims: magic, then three (two for P4) unsigned decimal tokens separated
/// by whitespace / comments. Returns None if it cannot make sense of it.
fn oracle_header(inp: &[u8]) -> Option<(u8, u64, u64)> {
    if inp.len() < 2 || inp[0] != b'P' {
        return None;
    }
    let kind = inp[1];
    let mut i = 2;
    let mut nums = vec![];
    let want = if kind == b'4' { 2 } else { 3 };
    while nums.len() < want {
        // skip ws and comments
        loop {
            match inp.get(i) {
                Some(b'#') => {
                    while *inp.get(i)? != b'\n' {
                        i += 1;
                    }
                }
                Some(c) if c.is_ascii_whitespace() => i += 1,
                Some(_) => break,
                None => return None,
            }
        }
        let s = i;
        while inp.get(i).is_some_and(|c| c.is_ascii_digit()) {
            i += 1;
        }
        if s == i {
            return None;
        }
        nums.push(std::str::from_utf8(&inp[s..i]).ok()?.parse::<u64>().ok()?);
        // token must be followed by ws (or EOF)
        match inp.get(i) {
            None => {}
            Some(c) if c.is_ascii_whitespace() => {}
            _ => return None,
        }
    }
    Some((kind, nums[0], nums[1]))
}

fn check_total(inp: &[u8]) {
    let res = quiet(|| parse_pnm(inp.iter().copied()));
    let res = match res {
        Ok(r) => r,
        Err(e) => panic!("parse_pnm PANICKED on {:?}: {}", String::from_utf8_lossy(inp), panic_msg(&e)),
    };
    let res2 = quiet(|| read_pnm(inp)).unwrap_or_else(|e| {
        panic!("read_pnm PANICKED on {:?}: {}", String::from_utf8_lossy(inp), panic_msg(&e))
    });
    match (&res, &res2) {
        (Ok(a), Ok(b)) => {
            assert_eq!(a.dims(), b.dims());
            assert_eq!(a.data(), b.data());
        }
        (Err(a), Err(b)) => assert_eq!(a, b),
        _ => panic!("parse_pnm and read_pnm disagree on {:?}", String::from_utf8_lossy(inp)),
    }
    if let Ok(img) = res {
        let (w, h) = img.dims();
        assert_eq!(img.data().len() as u64, w as u64 * h as u64, "pixel count");
        assert_eq!(img.stride(), w);
        if let Some((_, ow, oh)) = oracle_header(inp) {
            assert_eq!((w as u64, h as u64), (ow, oh), "dims differ from header in {:?}", String::from_utf8_lossy(inp));
        }
    }
}

fn gen_header(rng: &mut Rng) -> Vec<u8> {
    let mut v = vec![];
    let magic: &[&[u8]] = &[b"P1", b"P2", b"P3", b"P4", b"P5", b"P6", b"P7", b"P", b"p6", b"", b"P66"];
    v.extend_from_slice(if rng.chance(9, 10) { *rng.pick(&magic[1..6]) } else { *rng.pick(magic) });
    let nums: &[&str] = &[
        "0", "1", "2", "3", "4", "7", "8", "9", "16", "255", "256", "65535", "65536", "65537",
        "4294967295", "4294967296", "2147483647", "2147483648", "18446744073709551615",
        "18446744073709551616", "-1", "+1", "+0", "-0", "1e3", "0x10", "1.0", "", "00000000000000000001",
        "99999999999999999999999999", "١",
    ];
    for _ in 0..rng.below(5) {
        // separators
        for _ in 0..rng.below(4) {
            match rng.below(8) {
                0 => v.extend_from_slice(b"#"),
                1 => v.extend_from_slice(b"# c 12 #\n"),
                2 => v.extend_from_slice(b"\r\n"),
                3 => v.push(0x0b),
                4 => v.push(0x0c),
                5 => v.push(b'\t'),
                _ => v.push(b' '),
            }
        }
        if rng.chance(3, 4) {
            v.extend_from_slice(rng.pick(&nums[..12]).as_bytes());
        } else {
            v.extend_from_slice(rng.pick(nums).as_bytes());
        }
    }
    if rng.chance(4, 5) {
        v.push(*rng.pick(b" \n\t\r#"));
    }
    v
}

#[test]
fn ok_fuzz_decode_is_total() {
    let mut rng = Rng::new(3);
    for _ in 0..300_000 {
        let mut inp = gen_header(&mut rng);
        let n = rng.below(40) as usize;
        if rng.chance(1, 2) {
            inp.extend(pixel_bytes(&mut rng, n));
        } else {
            // text-ish body
            for _ in 0..n {
                let toks: &[&str] = &["0", "1", "12", "255", "256", "-1", "+3", "#x\n", " ", "\n", "\t", "a", "999999999999"];
                inp.extend_from_slice(rng.pick(toks).as_bytes());
                inp.push(b' ');
            }
        }
        // mutate
        for _ in 0..rng.below(3) {
            if inp.is_empty() { break; }
            let i = rng.below(inp.len() as u64) as usize;
            match rng.below(4) {
                0 => inp[i] = rng.next() as u8,
                1 => { inp.remove(i); }
                2 => inp.insert(i, *rng.pick(NASTY)),
                _ => inp.truncate(i),
            }
        }
        check_total(&inp);
    }
}

#[test]
fn ok_fuzz_random_bytes_total() {
    let mut rng = Rng::new(4);
    for _ in 0..200_000 {
        let n = rng.below(24) as usize;
        let mut inp: Vec<u8> = (0..n).map(|_| rng.next() as u8).collect();
        if rng.chance(3, 4) && inp.len() >= 2 {
            inp[0] = b'P';
            inp[1] = b'1' + rng.below(7) as u8;
        }
        check_total(&inp);
    }
}

#[test]
fn ok_huge_and_zero_dims_do_not_panic_or_allocate() {
    let cases: &[&str] = &[
        "P6 4294967295 4294967295 255\n",
        "P6 65536 65536 255\n",
        "P6 65535 65537 255\n", // product 4294967295 fits exactly
        "P5 65535 65537 255\n",
        "P4 65535 65537\n",
        "P3 65535 65537 255\n",
        "P2 65535 65537 255\n",
        "P2 4294967295 1 255\n1 2 3",
        "P3 1 4294967295 255\n1 2 3 4 5 6",
        "P6 0 4294967295 255\n",
        "P6 4294967295 0 255\n",
        "P5 0 0 255\nxxxx",
        "P4 0 0\nxxxx",
        "P2 0 0 255\n1 2 3",
        "P3 0 0 255\n",
        "P6 1 1 0\nabc",
        "P6 1 1 65535\nabc",
        "P6 1 1 65536\nabc",
        "P6 1 1 -1\nabc",
    ];
    for c in cases {
        // see viol_v4: on 32-bit targets zero-area headers with a dimension
        // >= 2^31 panic
        if cfg!(target_pointer_width = "32") && (c.contains(" 4294967295 0 ") || c.contains(" 0 4294967295 ")) {
            continue;
        }
        let mut v = c.as_bytes().to_vec();
        check_total(&v);
        v.extend_from_slice(&[b'7'; 100]);
        check_total(&v);
    }
}

// =====================================================================
// OK: text and binary encodings agree; header spellings
// =====================================================================

fn spell_header(rng: &mut Rng, magic: &str, w: u32, h: u32, max: Option<u32>) -> Vec<u8> {
    // whitespace and *whitespace-preceded* comments between the fields,
    // exactly one whitespace byte after the last field
    let mut v = magic.as_bytes().to_vec();
    let mut fields = vec![w.to_string(), h.to_string()];
    if let Some(m) = max {
        fields.push(m.to_string());
    }
    let ws: &[u8] = b" \t\n\r\x0c";
    for f in fields {
        // at least one whitespace
        v.push(*rng.pick(ws));
        for _ in 0..rng.below(4) {
            if rng.chance(1, 3) {
                // comment, preceded by whitespace (the one just pushed)
                v.push(b'#');
                for _ in 0..rng.below(6) {
                    let c = *rng.pick(b"# 0123456789abcP\t\r\x0c\x0b\xff");
                    v.push(c);
                }
                v.push(b'\n');
            } else {
                v.push(*rng.pick(ws));
            }
        }
        if rng.chance(1, 5) {
            // leading zeros
            v.extend_from_slice(b"00");
        }
        v.extend_from_slice(f.as_bytes());
    }
    v.push(*rng.pick(ws));
    v
}

#[test]
fn ok_text_and_binary_agree_for_all_header_spellings() {
    let mut rng = Rng::new(5);
    for _ in 0..30_000 {
        let w = rng.below(5) as u32;
        let h = rng.below(5) as u32;
        let max = *rng.pick(&[255u32, 255, 255, 1, 7, 100, 65535, 0]);
        let n = (w * h) as usize;
        // P5 / P2
        let px = pixel_bytes(&mut rng, n);
        let mut bin = spell_header(&mut rng, "P5", w, h, Some(max));
        bin.extend_from_slice(&px);
        let mut txt = spell_header(&mut rng, "P2", w, h, Some(max));
        for p in &px {
            txt.extend_from_slice(format!("{p}").as_bytes());
            txt.push(*rng.pick(b" \n\t\r"));
            if rng.chance(1, 6) {
                txt.extend_from_slice(b"# c 9\n");
            }
        }
        let a = parse_pnm(bin.iter().copied()).unwrap_or_else(|e| panic!("{e:?} {:?}", String::from_utf8_lossy(&bin)));
        let b = parse_pnm(txt.iter().copied()).unwrap_or_else(|e| panic!("{e:?} {:?}", String::from_utf8_lossy(&txt)));
        assert_eq!(a.dims(), (w, h));
        assert_eq!(b.dims(), (w, h));
        assert_eq!(a.data(), b.data());
        let exp: Vec<[u8; 3]> = px.iter().map(|&p| [p, p, p]).collect();
        assert_eq!(pixels_of(&a), exp);

        // P6 / P3
        let px = pixel_bytes(&mut rng, n * 3);
        let mut bin = spell_header(&mut rng, "P6", w, h, Some(max));
        bin.extend_from_slice(&px);
        let mut txt = spell_header(&mut rng, "P3", w, h, Some(max));
        for p in &px {
            txt.extend_from_slice(format!("{p}").as_bytes());
            txt.push(*rng.pick(b" \n\t\r"));
            if rng.chance(1, 6) {
                txt.extend_from_slice(b"#\n");
            }
        }
        if rng.chance(1, 2) {
            // last sample may end at EOF
            while txt.last().is_some_and(|c| !c.is_ascii_digit()) && n > 0 {
                txt.pop();
            }
            if txt.last() == Some(&b'#') { txt.push(b'\n'); }
        }
        let a = parse_pnm(bin.iter().copied()).unwrap();
        let b = parse_pnm(txt.iter().copied()).unwrap_or_else(|e| panic!("{e:?} {:?}", String::from_utf8_lossy(&txt)));
        assert_eq!(a.dims(), (w, h));
        assert_eq!(a.data(), b.data());
        let exp: Vec<[u8; 3]> = px.chunks(3).map(|p| [p[0], p[1], p[2]]).collect();
        assert_eq!(pixels_of(&a), exp);
    }
}

// =====================================================================
// Streams: differential chaos testing
// =====================================================================

fn gen_read_script(rng: &mut Rng, len: usize, allow_fail: bool, allow_zero: bool) -> Vec<R> {
    let n = rng.below(len as u64 * 2 + 4) as usize;
    (0..n)
        .map(|_| match rng.below(10) {
            0 | 1 => R::Interrupted,
            2 if allow_fail => R::Fail(*rng.pick(&[
                ErrorKind::Other, ErrorKind::WouldBlock, ErrorKind::TimedOut,
                ErrorKind::UnexpectedEof, ErrorKind::BrokenPipe, ErrorKind::InvalidData,
            ])),
            3 if allow_zero => R::Zero,
            _ => R::Short(1 + rng.below(5) as usize),
        })
        .collect()
}

fn sample_file(rng: &mut Rng) -> Vec<u8> {
    let w = rng.below(5) as u32;
    let h = rng.below(5) as u32;
    let n = (w * h) as usize;
    let kind = rng.below(5);
    let mut v = match kind {
        0 => spell_header(rng, "P6", w, h, Some(255)),
        1 => spell_header(rng, "P5", w, h, Some(255)),
        2 => spell_header(rng, "P3", w, h, Some(255)),
        3 => spell_header(rng, "P2", w, h, Some(255)),
        _ => spell_header(rng, "P4", w, h, None),
    };
    match kind {
        0 => v.extend(pixel_bytes(rng, n * 3)),
        1 => v.extend(pixel_bytes(rng, n)),
        4 => v.extend(pixel_bytes(rng, (n + 7) / 8)),
        2 | 3 => {
            let k = if kind == 2 { 3 * n } else { n };
            for _ in 0..k {
                v.extend_from_slice(format!("{} ", rng.below(256)).as_bytes());
            }
        }
        _ => unreachable!(),
    }
    // sometimes truncate or add trailing data
    match rng.below(6) {
        0 if !v.is_empty() => {
            let i = rng.below(v.len() as u64) as usize;
            v.truncate(i)
        }
        1 => v.extend(pixel_bytes(rng, 5)),
        _ => {}
    }
    v
}

/// Readers that are awkward but never fail and never signal a premature
/// end: the result must be IDENTICAL to parsing the plain bytes.
#[test]
fn ok_read_short_and_interrupted_reads_are_transparent() {
    let mut rng = Rng::new(6);
    for _ in 0..40_000 {
        let file = sample_file(&mut rng);
        let plain = parse_pnm(file.iter().copied());
        let script = gen_read_script(&mut rng, file.len(), false, false);
        let wrap = rng.below(6);
        let mut rd = ScriptReader::new(&file, script.clone());
        let got = quiet(|| match wrap {
            0 => read_pnm(&mut rd),
            1 => read_pnm(BufReader::new(&mut rd)),
            2 => read_pnm(&mut BufReader::with_capacity(1, &mut rd)),
            3 => read_pnm(BufReader::with_capacity(3, BufReader::with_capacity(2, &mut rd))),
            4 => {
                let k = file.len() / 2;
                let a = ScriptReader::new(&file[..k], script.clone());
                let b = ScriptReader::new(&file[k..], script.clone());
                read_pnm(a.chain(b))
            }
            _ => read_pnm((&mut rd).take(u64::MAX)),
        })
        .unwrap_or_else(|e| panic!("panic under stream: {}", panic_msg(&e)));
        match (&plain, &got) {
            (Ok(a), Ok(b)) => {
                assert_eq!(a.dims(), b.dims());
                assert_eq!(a.data(), b.data());
            }
            (Err(a), Err(b)) => assert_eq!(a, b),
            _ => panic!("differ: plain {plain:?} got {got:?} script {script:?}"),
        }
    }
}

/// Readers that may fail: Ok is only allowed if it equals what the full,
/// clean byte string decodes to ... or (more leniently) what the prefix
/// delivered before the first failure decodes to - never anything else.
#[test]
fn ok_read_with_errors_fails_or_is_faithful() {
    let mut rng = Rng::new(7);
    let mut oks = 0;
    let mut errs = 0;
    for _ in 0..40_000 {
        let file = sample_file(&mut rng);
        let plain = parse_pnm(file.iter().copied());
        let script = gen_read_script(&mut rng, file.len(), true, false);
        let mut rd = ScriptReader::new(&file, script.clone());
        let wrap = rng.below(3);
        let got = quiet(|| match wrap {
            0 => read_pnm(&mut rd),
            1 => read_pnm(BufReader::with_capacity(4, &mut rd)),
            _ => read_pnm(&mut BufReader::new(&mut rd)),
        })
        .unwrap_or_else(|e| panic!("panic under failing stream: {}", panic_msg(&e)));
        match got {
            Ok(img) => {
                oks += 1;
                let p = plain.as_ref().unwrap_or_else(|e| {
                    panic!("Ok under failing stream but clean parse is {e:?}; script {script:?} file {:?}", String::from_utf8_lossy(&file))
                });
                assert_eq!(img.dims(), p.dims());
                assert_eq!(img.data(), p.data());
            }
            Err(_) => errs += 1,
        }
    }
    assert!(oks > 1000 && errs > 1000, "{oks} {errs}");
}

fn gen_write_script(rng: &mut Rng, len: usize, allow_fail: bool) -> Vec<W> {
    let n = rng.below(len as u64 + 4) as usize;
    (0..n)
        .map(|_| match rng.below(12) {
            0 | 1 => W::Interrupted,
            2 if allow_fail => W::Fail(*rng.pick(&[
                ErrorKind::Other, ErrorKind::WouldBlock, ErrorKind::BrokenPipe, ErrorKind::StorageFull,
            ])),
            3 if allow_fail => W::Zero,
            _ => W::Short(1 + rng.below(7) as usize),
        })
        .collect()
}

#[test]
fn ok_write_ok_implies_all_bytes_reached_and_flushed() {
    let mut rng = Rng::new(8);
    let (mut oks, mut errs) = (0, 0);
    for _ in 0..40_000 {
        let w = rng.below(6) as u32;
        let h = rng.below(6) as u32;
        let img = image(&mut rng, w, h);
        let want = reference_ppm(&img);
        let script = gen_write_script(&mut rng, want.len(), true);
        let flush_script: Vec<Option<ErrorKind>> = (0..rng.below(4))
            .map(|_| match rng.below(5) {
                0 => Some(ErrorKind::Other),
                1 => Some(ErrorKind::Interrupted),
                _ => None,
            })
            .collect();
        let mut sink = ScriptWriter::new(script.clone(), flush_script.clone());
        let wrap = rng.below(7);
        let res = quiet(|| match wrap {
            0 => write_ppm(&mut sink, &img),
            1 => write_ppm(BufWriter::new(&mut sink), &img),
            2 => write_ppm(BufWriter::with_capacity(rng.below(9) as usize, &mut sink), &img),
            3 => write_ppm(LineWriter::new(&mut sink), &img),
            4 => write_ppm(LineWriter::with_capacity(2, &mut sink), &img),
            5 => {
                let mut bw = BufWriter::with_capacity(5, &mut sink);
                write_ppm(&mut bw, &img)
                // bw dropped here: any further error would be swallowed, so
                // write_ppm's Ok must already mean everything is through
            }
            _ => write_ppm(BufWriter::with_capacity(3, LineWriter::with_capacity(4, &mut sink)), &img),
        })
        .unwrap_or_else(|e| panic!("panic under stream: {}", panic_msg(&e)));
        match res {
            Ok(()) => {
                oks += 1;
                assert_eq!(sink.accepted, want, "Ok but bytes differ; script {script:?} wrap {wrap}");
                assert_eq!(sink.flushed_len, want.len(), "Ok but not flushed; wrap {wrap} flush {flush_script:?}");
            }
            Err(_) => {
                errs += 1;
                // never anything but a prefix of the right bytes... (the
                // std wrappers may retry a chunk after an error, so we only
                // check the weaker property for the unwrapped case)
                if wrap == 0 {
                    assert!(want.starts_with(&sink.accepted));
                }
            }
        }
    }
    assert!(oks > 1000 && errs > 1000, "{oks} {errs}");
}

#[test]
fn ok_write_into_fixed_size_sinks() {
    let mut rng = Rng::new(9);
    let img = image(&mut rng, 3, 3);
    let want = reference_ppm(&img);
    for cap in 0..want.len() + 3 {
        let mut store = vec![0u8; cap];
        let r = write_ppm(&mut store[..], &img);
        assert_eq!(r.is_ok(), cap >= want.len(), "slice cap {cap}");
        let mut store = vec![0u8; cap];
        let mut cur = Cursor::new(&mut store[..]);
        let r = write_ppm(&mut cur, &img);
        assert_eq!(r.is_ok(), cap >= want.len(), "cursor cap {cap}");
        if r.is_ok() {
            assert_eq!(&store[..want.len()], &want[..]);
        }
    }
}

#[test]
fn ok_save_and_load_files() {
    let dir = std::env::temp_dir().join(format!("hunt-h1-{}", std::process::id()));
    std::fs::create_dir_all(&dir).unwrap();
    let mut rng = Rng::new(10);
    for i in 0..50 {
        let (w, h) = (rng.below(40) as u32, rng.below(40) as u32);
        let img = image(&mut rng, w, h);
        let p = dir.join(format!("{i}.ppm"));
        pnm::save_ppm(&p, &img).unwrap();
        assert_eq!(std::fs::read(&p).unwrap(), reference_ppm(&img));
        let back = pnm::load_pnm(&p).unwrap();
        assert_eq!(back.dims(), (w, h));
        assert_eq!(back.data(), img.data());
    }
    // errors, not panics
    assert!(pnm::load_pnm(dir.join("missing.ppm")).is_err());
    assert!(pnm::load_pnm(&dir).is_err()); // a directory
    assert!(pnm::save_ppm(dir.join("no/such/dir.ppm"), Buf2::<Color3>::new((1, 1))).is_err());
    assert!(pnm::save_ppm(&dir, Buf2::<Color3>::new((1, 1))).is_err());
    if std::path::Path::new("/dev/full").exists() {
        let big = image(&mut rng, 100, 100);
        assert!(pnm::save_ppm("/dev/full", &big).is_err(), "/dev/full big");
        let small = image(&mut rng, 1, 1);
        assert!(pnm::save_ppm("/dev/full", &small).is_err(), "/dev/full small");
    }
    std::fs::remove_dir_all(&dir).unwrap();
}

#[test]
fn ok_p6_reads_exactly_its_own_bytes_from_a_shared_reader() {
    // two concatenated P6 images can be read one after the other by &mut
    let mut rng = Rng::new(11);
    let a = image(&mut rng, 3, 2);
    let b = image(&mut rng, 2, 4);
    let mut bytes = reference_ppm(&a);
    bytes.extend(reference_ppm(&b));
    let mut cur = Cursor::new(bytes);
    let ra = read_pnm(&mut cur).unwrap();
    let rb = read_pnm(&mut cur).unwrap();
    assert_eq!(ra.data(), a.data());
    assert_eq!(rb.data(), b.data());
}

// =====================================================================
// VIOLATIONS (tests pass when the defect is present)
// =====================================================================

/// V1. End of input is treated as a token delimiter, and the byte source
/// is not fused: after `Read::read` has returned Ok(0) (which the decoder
/// uses to terminate a header number or a text sample) the decoder keeps
/// calling `read` and decodes what comes later as if nothing had happened.
/// A reader for which Ok(0) is not final is legal (std docs: "does not mean
/// that the reader will always no longer be able to produce bytes" - a
/// terminal after ^D, a file that is being appended to, a socket wrapper).
/// The result is Ok with an image that is right under NEITHER reading of
/// Ok(0): if Ok(0) is the end of the file the file is truncated and an
/// error is due; if it is a hiccup the image is the one in the whole bytes.
#[test]
fn viol_v1_ok0_in_header_then_more_data_gives_ok_with_wrong_image() {
    // what write_ppm produces for a 2x1 image
    let img = Buf2::new_from((2, 1), [rgb(10u8, 20, 30), rgb(40, 50, 60)]);
    let mut file = vec![];
    write_ppm(&mut file, &img).unwrap();
    assert_eq!(&file[..11], b"P6 2 1 255\n");

    // The reader reports "no more data for now" after "P6 2 1 25"
    let mut script = vec![R::Short(1); 9];
    script.push(R::Zero);
    let got = read_pnm(ScriptReader::new(&file, script)).expect("Ok");

    // (a) Ok(0) == end of file: "P6 2 1 25" has no raster at all
    assert_eq!(parse_pnm(file[..9].iter().copied()).err(), Some(pnm::Error::UnexpectedEnd));
    // (b) Ok(0) == hiccup: the whole bytes
    let whole = parse_pnm(file.iter().copied()).unwrap();
    assert_eq!(whole.data(), img.data());

    // What we get is Ok, same dims, but pixels shifted by two bytes
    assert_eq!(got.dims(), (2, 1));
    assert_ne!(got.data(), img.data());
    assert_eq!(got.data(), [rgb(b'5', b'\n', 10), rgb(20, 30, 40)]);

    // std's BufReader passes the Ok(0) through and is just as happy to be
    // polled again, so wrapping does not help (this is what load_pnm does)
    let script = vec![R::Short(4), R::Short(4), R::Short(1), R::Zero];
    let mut br = BufReader::with_capacity(4, ScriptReader::new(&file, script));
    let got = read_pnm(&mut br).expect("Ok");
    assert_eq!(got.data(), [rgb(b'5', b'\n', 10), rgb(20, 30, 40)]);
}

#[test]
fn viol_v1_ok0_inside_text_sample_gives_ok_with_wrong_image() {
    let file = b"P2 2 1 255\n123 7";
    // Ok(0) between "12" and "3"
    let mut script = vec![R::Short(1); 13];
    script.push(R::Zero);
    let got = read_pnm(ScriptReader::new(file, script)).expect("Ok");
    // end-of-file reading: only one sample "12" for two pixels -> error
    assert_eq!(parse_pnm(file[..13].iter().copied()).err(), Some(pnm::Error::UnexpectedEnd));
    // hiccup reading: pixels 123, 7
    assert_eq!(parse_pnm(*file).unwrap().data(), [rgb(123, 123, 123), rgb(7, 7, 7)]);
    // actual: 12, 3
    assert_eq!(got.data(), [rgb(12, 12, 12), rgb(3, 3, 3)]);
}

/// Same root cause through parse_pnm with an iterator that is not fused
/// (which `Iterator` allows).
#[test]
fn viol_v1_parse_pnm_polls_iterator_after_none() {
    struct Gappy(Vec<Option<u8>>, usize);
    impl Iterator for Gappy {
        type Item = u8;
        fn next(&mut self) -> Option<u8> {
            let r = self.0.get(self.1).copied().flatten();
            self.1 += 1;
            r
        }
    }
    let mut v: Vec<Option<u8>> = b"P5 1 1 25".iter().map(|&b| Some(b)).collect();
    v.push(None);
    v.extend(b"5\nX".iter().map(|&b| Some(b)));
    let got = parse_pnm(Gappy(v, 0)).expect("Ok");
    assert_eq!(got.data(), [rgb(b'5', b'5', b'5')]); // neither error nor 'X'
}

/// V2 (release builds / overflow checks off only). Inner::new computes the
/// required size `(h - 1) * stride + w` in u32. When it wraps, Slice2::new
/// accepts a view whose dims promise more pixels than the data holds.
/// write_ppm of that view returns Ok(()) having written a header for
/// 1 x 65537 and only two pixels; reading that back fails.
#[test]
fn viol_v2_release_wrapping_size_check_lets_write_ppm_emit_short_file() {
    let data = vec![rgb(1u8, 2, 3); 65537];
    let made = quiet(|| {
        let v = Slice2::new((1, 65537), 65536, &data[..]);
        let mut out = vec![];
        let r = write_ppm(&mut out, v);
        (r.is_ok(), out)
    });
    if cfg!(debug_assertions) {
        // overflow check fires inside Slice2::new: not constructible
        let e = made.expect_err("debug build panics in Slice2::new");
        assert!(panic_msg(&e).contains("overflow"), "{}", panic_msg(&e));
    } else {
        let (ok, out) = made.expect("release: constructs and writes without panic");
        assert!(ok, "write_ppm says Ok");
        let header = b"P6 1 65537 255\n";
        assert!(out.starts_with(header));
        assert_eq!(out.len(), header.len() + 2 * 3, "only 2 of 65537 pixels written");
        assert_eq!(read_pnm(&out[..]).err(), Some(pnm::Error::UnexpectedEnd));
    }
}

/// V3 (release builds only). Buf2::new computes `w * h` in u32; for
/// 65537 x 65537 it wraps to 131073 and every check in Inner::new passes
/// (also by wrapping). write_ppm on that buffer panics inside rows().
#[test]
fn viol_v3_release_buf2_new_wraps_and_write_ppm_panics() {
    let made = quiet(|| Buf2::<Color3>::new((65537, 65537)));
    if cfg!(debug_assertions) {
        let e = made.err().expect("debug build panics in Buf2::new");
        assert!(panic_msg(&e).contains("overflow"), "{}", panic_msg(&e));
    } else {
        let buf = made.expect("release: Buf2::new((65537, 65537)) succeeds");
        assert_eq!(buf.dims(), (65537, 65537));
        assert_eq!(buf.data().len(), 131073);
        let mut out = vec![];
        let r = quiet(|| write_ppm(&mut out, &buf));
        let e = r.err().expect("write_ppm panics");
        assert!(panic_msg(&e).contains("out of range"), "{}", panic_msg(&e));
        assert!(out.starts_with(b"P6 65537 65537 255\n"));
    }
}

// =====================================================================
// BORDERLINE (tests pass when the behaviour is present)
// =====================================================================

/// B1. A comment that directly follows a number (no whitespace before '#')
/// is not skipped: the in-comment state is local to one parse_num call.
#[test]
fn border_b1_comment_glued_to_number() {
    // netpbm accepts this spelling; here the comment text is parsed as the
    // next number
    assert_eq!(parse_pnm(*b"P6 1#c\n1 255 abc").err(), Some(pnm::Error::InvalidNumber));
    // if the comment text happens to be numeric the image is silently wrong
    let img = parse_pnm(*b"P6 1#2 \n1 255\nabcdef").unwrap();
    assert_eq!(img.dims(), (1, 2)); // width 1, "2" from inside the comment is the height, "1" the maxval
    // after the last field: '#' serves as the single delimiter, the comment
    // is pixel data
    let img = parse_pnm(*b"P6 1 1 255#c\nabc").unwrap();
    assert_eq!(img.data(), [rgb(b'c', b'\n', b'a')]);
    // text raster
    assert_eq!(parse_pnm(*b"P2 2 1 255\n1#c\n2").err(), Some(pnm::Error::InvalidNumber));
    let img = parse_pnm(*b"P2 2 1 255\n1#9\n2").unwrap();
    assert_eq!(img.data(), [rgb(1, 1, 1), rgb(9, 9, 9)]);
}

/// B2. Comments end only at LF, not at CR (netpbm: "carriage return or
/// newline"); VT (0x0b) is not whitespace.
#[test]
fn border_b2_cr_terminated_comment_and_vertical_tab() {
    assert_eq!(parse_pnm(*b"P6 #c\r1 1 255 abc").err(), Some(pnm::Error::UnexpectedEnd));
    // with an LF somewhere in the pixel data: silently misparsed
    let r = parse_pnm(*b"P5 #c\r2 1 255 \n1 1 9 xyz");
    assert_eq!(r.unwrap().dims(), (1, 1));
    assert_eq!(parse_pnm(*b"P6\x0b1 1 255 abc").err(), Some(pnm::Error::InvalidNumber));
    assert!(parse_pnm(*b"P6\x0c1 1 255 abc").is_ok());
}

/// B3. Signs and other FromStr leniencies.
#[test]
fn border_b3_plus_sign_accepted() {
    let img = parse_pnm(*b"P6 +1 +1 +255 abc").unwrap();
    assert_eq!(img.dims(), (1, 1));
    let img = parse_pnm(*b"P2 1 1 255 +7").unwrap();
    assert_eq!(img.data(), [rgb(7, 7, 7)]);
    // magic glued to the width
    assert_eq!(parse_pnm(*b"P61 1 255 abc").unwrap().dims(), (1, 1));
}

/// B4. maxval is parsed (u16; > 65535 is an error) and otherwise ignored:
/// 16-bit binary rasters are read as one byte per sample, samples above
/// maxval are accepted, maxval 0 is accepted, no scaling.
#[test]
fn border_b4_maxval_ignored() {
    let img = parse_pnm(*b"P5 2 1 65535\n\x01\x02\x03\x04").unwrap();
    // netpbm: two samples 0x0102, 0x0304. here: 0x01, 0x02 and 2 bytes unread
    assert_eq!(img.data(), [rgb(1, 1, 1), rgb(2, 2, 2)]);
    assert_eq!(parse_pnm(*b"P2 1 1 65535\n300").err(), Some(pnm::Error::InvalidNumber));
    assert_eq!(parse_pnm(*b"P2 1 1 7\n200").unwrap().data(), [rgb(200, 200, 200)]);
    assert!(parse_pnm(*b"P6 1 1 0\nabc").is_ok());
    assert_eq!(parse_pnm(*b"P6 1 1 65536\nabc").err(), Some(pnm::Error::InvalidNumber));
}

/// B5. P4 rows are not padded to whole bytes (netpbm pads each row).
#[test]
fn border_b5_p4_rows_not_byte_aligned() {
    // netpbm: 1x2 image, row 0 = byte 0x00 -> white, row 1 = byte 0x80 -> black
    let img = parse_pnm(*b"P4 1 2\n\x00\x80").unwrap();
    let w = rgb(255u8, 255, 255);
    assert_eq!(img.data(), [w, w]); // second pixel should be black
    // and one byte suffices where netpbm needs two
    assert!(parse_pnm(*b"P4 1 2\n\x00").is_ok());
}

/// B6. P5 and P4 read the reader to its end (P6 and the text formats stop
/// after the last pixel / one byte later), buffering everything.
#[test]
fn border_b6_p5_consumes_whole_stream() {
    let mut bytes = b"P5 1 1 255\nx".to_vec();
    bytes.extend_from_slice(b"P5 1 1 255\ny");
    let mut cur = Cursor::new(bytes);
    assert_eq!(read_pnm(&mut cur).unwrap().data(), [rgb(b'x', b'x', b'x')]);
    assert_eq!(read_pnm(&mut cur).err(), Some(pnm::Error::UnexpectedEnd));
    // ... and an I/O error AFTER the last needed byte fails a P5 but not a P6
    let p5 = b"P5 1 1 255\nx";
    let mut script = vec![R::Short(1); p5.len()];
    script.push(R::Fail(ErrorKind::Other));
    assert!(read_pnm(ScriptReader::new(p5, script.clone())).is_err());
    let p6 = b"P6 1 1 255\nxyz";
    let mut script = vec![R::Short(1); p6.len()];
    script.push(R::Fail(ErrorKind::Other));
    assert!(read_pnm(ScriptReader::new(p6, script)).is_ok());
}

/// B7. View construction: an empty range at the bottom edge (top == bottom
/// == height), which resolve_bounds' comment says is permitted, panics with
/// a slice index error unless left == right == 0.
#[test]
fn border_b7_empty_slice_at_bottom_edge_panics() {
    let buf: Buf2<Color3> = Buf2::new((4, 5));
    assert!(quiet(|| { buf.slice((0..0, 5..5)); }).is_ok());
    let e = quiet(|| { buf.slice((.., 5..)); }).err().expect("panics");
    assert!(panic_msg(&e).contains("out of range"), "{}", panic_msg(&e));
    assert!(quiet(|| { buf.slice((1..3, 5..5)); }).is_err());
    // the right edge is fine
    assert!(quiet(|| { buf.slice((4.., ..)); }).is_ok());
    // a sub-view: any empty range at its bottom panics
    let v = buf.slice((1..3, 1..4));
    assert!(quiet(|| { v.slice((.., 3..)); }).is_err());
}

/// B8. After an I/O error the decoder goes on reading from the reader
/// (result is still Err, so no violation; just unexpected traffic).
#[test]
fn border_b8_reads_continue_after_io_error() {
    let file = b"P6 1 1 255\nabc";
    let mut script = vec![R::Short(1); 4];
    script.push(R::Fail(ErrorKind::Other)); // inside the header, after "P6 1"
    let mut rd = ScriptReader::new(file, script);
    assert_eq!(read_pnm(&mut rd).err(), Some(pnm::Error::Io(ErrorKind::Other)));
    assert_eq!(rd.pos, file.len(), "the whole rest of the file was still read");
}

/// V4 (32-bit targets only; reproduced under `cargo miri test --target
/// i686-unknown-linux-gnu`). A zero-area header with one dimension
/// >= 2^31 passes the u32 `checked_mul` in parse_pnm (the product is 0)
/// and then hits the `isize::try_from` check in Buf2::new_from, which
/// panics. On 64-bit the same input decodes to an empty image.
#[test]
fn viol_v4_32bit_zero_area_header_with_dim_over_isize_max_panics() {
    for inp in ["P6 0 2147483648 255\n", "P6 2147483648 0 255\n", "P5 0 4294967295 255\n", "P2 4294967295 0 1 "] {
        let r = quiet(|| parse_pnm(inp.bytes()));
        if cfg!(target_pointer_width = "32") {
            let e = r.err().expect("32-bit: panics");
            assert!(panic_msg(&e).contains("cannot exceed isize::MAX"), "{}", panic_msg(&e));
        } else {
            let img = r.expect("64-bit: no panic").expect("Ok");
            assert_eq!(img.data().len(), 0);
        }
    }
    // the writer side can produce such a file on 64-bit, so a file written
    // on one machine makes load_pnm panic on another
}

/// V1 census: random files, random scripts with transient Ok(0)s (no hard
/// errors). Counts results that are Ok but equal neither the decode of the
/// bytes delivered before the first Ok(0) nor the decode of all bytes.
/// Also confirms there is no panic / hang in this regime.
#[test]
fn viol_v1_census_with_transient_eof() {
    let mut rng = Rng::new(12);
    let (mut wrong, mut total_ok, mut n) = (0, 0, 0);
    for _ in 0..40_000 {
        let file = sample_file(&mut rng);
        let script = gen_read_script(&mut rng, file.len(), false, true);
        if !script.iter().any(|s| matches!(s, R::Zero)) {
            continue;
        }
        n += 1;
        // bytes delivered before the first Ok(0) (unbuffered: Bytes asks
        // for one byte at a time, so every Short delivers exactly 1)
        let mut before = 0;
        for s in &script {
            match s {
                R::Short(_) => before += 1,
                R::Zero => break,
                _ => {}
            }
        }
        let before = before.min(file.len());
        let as_eof = parse_pnm(file[..before].iter().copied());
        let as_hiccup = parse_pnm(file.iter().copied());
        let mut rd = ScriptReader::new(&file, script.clone());
        let got = quiet(|| read_pnm(&mut rd)).unwrap_or_else(|e| panic!("panic: {}", panic_msg(&e)));
        if let Ok(img) = got {
            total_ok += 1;
            let same = |o: &pnm::Result<Buf2<Color3>>| {
                o.as_ref().is_ok_and(|o| o.dims() == img.dims() && o.data() == img.data())
            };
            if !same(&as_eof) && !same(&as_hiccup) {
                wrong += 1;
            }
        }
    }
    eprintln!("transient-EOF census: {n} runs, {total_ok} Ok, {wrong} Ok-but-matching-neither-reading");
    assert!(wrong > 0);
}
