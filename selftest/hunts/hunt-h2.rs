//! Hunt for real defects in OBJ parsing / reading (geom/src/io.rs).
//!
//! Naming:
//!   v_*  : asserts the PROPERTY; a failing v_ test is a reproduced violation
//!   ok_* : things that were tried and turned out fine (must pass)
//!   b_*  : borderline behaviours; asserts the ACTUAL behaviour (must pass)

#![cfg(feature = "std")]

use std::io::{self, BufReader, ErrorKind, Read};
use std::panic::{catch_unwind, AssertUnwindSafe};
use std::sync::atomic::{AtomicBool, AtomicU64, Ordering};
use std::sync::{mpsc, Arc};
use std::time::Duration;

use re::geom::mesh::Builder;
use re::geom::{Mesh, Tri};
use retrofire_geom::io::{load_obj, parse_obj, read_obj, Error};

// ---------------------------------------------------------------------------
// helpers
// ---------------------------------------------------------------------------

type Snapshot = (Vec<[u32; 3]>, Vec<[usize; 3]>);

fn snap_mesh(m: &Mesh<()>) -> Snapshot {
    (
        m.verts
            .iter()
            .map(|v| [v.pos.x().to_bits(), v.pos.y().to_bits(), v.pos.z().to_bits()])
            .collect(),
        m.faces.iter().map(|Tri(f)| *f).collect(),
    )
}

/// Checks the "total" half of the property on one parse result:
/// Ok => all indices in range and build() does not panic.
fn check_ok_builds(r: Result<Builder<()>, Error>) -> Result<Snapshot, Error> {
    match r {
        Err(e) => {
            // Display must not panic either
            let _ = format!("{e} {e:?}");
            Err(e)
        }
        Ok(b) => {
            let n = b.mesh.verts.len();
            for Tri(f) in &b.mesh.faces {
                assert!(f.iter().all(|&i| i < n), "face {f:?} out of {n}");
            }
            let m = b.build();
            Ok(snap_mesh(&m))
        }
    }
}

fn parse(bytes: &[u8]) -> Result<Snapshot, Error> {
    check_ok_builds(parse_obj(bytes.iter().copied()))
}

fn bits(v: [f32; 3]) -> [u32; 3] {
    v.map(f32::to_bits)
}

struct Rng(u64);
impl Rng {
    fn next(&mut self) -> u64 {
        // xorshift64*
        let mut x = self.0;
        x ^= x >> 12;
        x ^= x << 25;
        x ^= x >> 27;
        self.0 = x;
        x.wrapping_mul(0x2545F4914F6CDD1D)
    }
    fn below(&mut self, n: usize) -> usize {
        (self.next() % n as u64) as usize
    }
    fn coin(&mut self) -> bool {
        self.next() & 1 == 1
    }
}

/// A scripted reader: what each successive call to read() does.
#[derive(Clone, Debug)]
enum Step {
    Data(Vec<u8>),
    Eof, // Ok(0)
    Fail(ErrorKind),
    Intr, // ErrorKind::Interrupted
}
use Step::*;

#[derive(Clone, Copy, Debug)]
enum Tail {
    EofForever,
    FailForever(ErrorKind),
}

struct Script {
    steps: Vec<Step>,
    at: usize,
    off: usize,
    tail: Tail,
    max_chunk: usize,
    polls_after_script: u64,
}
impl Script {
    fn new(steps: Vec<Step>, tail: Tail) -> Self {
        Script { steps, at: 0, off: 0, tail, max_chunk: usize::MAX, polls_after_script: 0 }
    }
}
impl Read for Script {
    fn read(&mut self, buf: &mut [u8]) -> io::Result<usize> {
        if buf.is_empty() {
            return Ok(0);
        }
        loop {
            let Some(step) = self.steps.get(self.at) else {
                self.polls_after_script += 1;
                return match self.tail {
                    Tail::EofForever => Ok(0),
                    Tail::FailForever(k) => Err(k.into()),
                };
            };
            match step {
                Data(d) => {
                    if self.off >= d.len() {
                        self.at += 1;
                        self.off = 0;
                        continue;
                    }
                    let n = (d.len() - self.off).min(buf.len()).min(self.max_chunk);
                    buf[..n].copy_from_slice(&d[self.off..self.off + n]);
                    self.off += n;
                    return Ok(n);
                }
                Eof => {
                    self.at += 1;
                    return Ok(0);
                }
                Fail(k) => {
                    let k = *k;
                    self.at += 1;
                    return Err(k.into());
                }
                Intr => {
                    self.at += 1;
                    return Err(ErrorKind::Interrupted.into());
                }
            }
        }
    }
}

fn data(s: &str) -> Step {
    Data(s.as_bytes().to_vec())
}

fn read_script(steps: Vec<Step>, tail: Tail) -> Result<Snapshot, Error> {
    check_ok_builds(read_obj(Script::new(steps, tail)))
}

/// What the property allows a stream with premature Ok(0) to return when it
/// returns Ok: either the mesh of all delivered bytes, or the mesh of the
/// bytes delivered before some Ok(0) (treating that Ok(0) as the end).
fn allowed_meshes(steps: &[Step]) -> Vec<Snapshot> {
    let mut out = vec![];
    let mut acc: Vec<u8> = vec![];
    for s in steps {
        match s {
            Data(d) => acc.extend_from_slice(d),
            Eof => {
                if let Ok(m) = parse(&acc) {
                    out.push(m)
                }
            }
            _ => {}
        }
    }
    if let Ok(m) = parse(&acc) {
        out.push(m)
    }
    out
}

// ---------------------------------------------------------------------------
// VIOLATIONS (these tests assert the property and FAIL at HEAD)
// ---------------------------------------------------------------------------

/// A reader that reports Ok(0) in the middle of a comment line and then goes
/// on delivering: the rest of the comment is parsed as a fresh line, so
/// commented-out text becomes live geometry.
#[test]
fn v_premature_eof_inside_comment_resurrects_commented_out_vertex() {
    let steps = vec![data("v 0 0 0\n#"), Eof, data("v 1 2 3\n")];
    // Whole delivered text: "v 0 0 0\n#v 1 2 3\n"  -> 1 vertex
    // Text up to the Ok(0): "v 0 0 0\n#"           -> 1 vertex
    let allowed = allowed_meshes(&steps);
    assert!(allowed.iter().all(|m| m.0.len() == 1));
    let got = read_script(steps, Tail::EofForever);
    match got {
        Err(_) => {} // allowed
        Ok(m) => assert!(
            allowed.contains(&m),
            "read_obj returned Ok with {} vertices {:?}; delivered bytes say 1 vertex",
            m.0.len(),
            m.0.iter().map(|v| v.map(f32::from_bits)).collect::<Vec<_>>()
        ),
    }
}

/// Same seam, but the resurrected text is a face: the triangle list differs.
#[test]
fn v_premature_eof_inside_comment_resurrects_commented_out_face() {
    let steps = vec![
        data("v 0 0 0\nv 1 0 0\nv 0 1 0\nf 1 2 3\n# old: "),
        Eof,
        data("f 3 2 1\n"),
    ];
    let allowed = allowed_meshes(&steps);
    assert!(allowed.iter().all(|m| m.1 == vec![[0, 1, 2]]));
    match read_script(steps, Tail::EofForever) {
        Err(_) => {}
        Ok(m) => assert!(allowed.contains(&m), "faces returned: {:?}", m.1),
    }
}

/// Same seam through BufReader, by &mut, and through Chain.
#[test]
fn v_premature_eof_inside_comment_bufreader_and_by_ref() {
    let steps = vec![data("# "), Eof, data("v 1 2 3\n")];
    let allowed = allowed_meshes(&steps);
    assert!(allowed.iter().all(|m| m.0.is_empty()));

    let mut bad = vec![];

    let r = check_ok_builds(read_obj(BufReader::new(Script::new(steps.clone(), Tail::EofForever))));
    if let Ok(m) = r {
        if !allowed.contains(&m) {
            bad.push(("BufReader", m.0.len()));
        }
    }
    let mut s = Script::new(steps.clone(), Tail::EofForever);
    let r = check_ok_builds(read_obj(&mut s));
    if let Ok(m) = r {
        if !allowed.contains(&m) {
            bad.push(("&mut", m.0.len()));
        }
    }
    let mut s = BufReader::with_capacity(1, Script::new(steps.clone(), Tail::EofForever));
    let r = check_ok_builds(read_obj(&mut s));
    if let Ok(m) = r {
        if !allowed.contains(&m) {
            bad.push(("&mut BufReader(cap 1)", m.0.len()));
        }
    }
    // Chain: premature Ok(0) of the *second* reader
    let c = io::Cursor::new(b"v 9 9 9\n".to_vec()).chain(Script::new(steps.clone(), Tail::EofForever));
    let r = check_ok_builds(read_obj(c));
    if let Ok(m) = r {
        // delivered: "v 9 9 9\n# v 1 2 3\n" -> 1 vertex
        if m.0.len() != 1 {
            bad.push(("Chain", m.0.len()));
        }
    }
    assert!(bad.is_empty(), "Ok with wrong vertex count via: {bad:?}");
}

/// The premature-EOF handling is not even self-consistent: an Ok(0) that
/// falls on a line boundary ends the parse, an Ok(0) inside a line does not.
/// With both in one stream, the result is neither "up to first Ok(0)" nor
/// "everything" (this variant alone is arguably only borderline -- it equals
/// "up to the second Ok(0)" -- and so it is asserted with allowed_meshes,
/// which accepts that; it passes. See b_ test below.)

/// Randomised version: well-formed files containing comments; Ok(0) inserted
/// at a random position; result must be Err or one of the allowed meshes.
#[test]
fn v_random_premature_eof_positions() {
    let mut rng = Rng(0x1234_5678_9abc_def1);
    let mut bad = 0;
    let mut first_bad = None;
    let total = 3000;
    for _ in 0..total {
        let (text, _, _) = gen_well_formed(&mut rng, true);
        let bytes = text.into_bytes();
        let cut = rng.below(bytes.len() + 1);
        let steps = vec![Data(bytes[..cut].to_vec()), Eof, Data(bytes[cut..].to_vec())];
        let allowed = allowed_meshes(&steps);
        if let Ok(m) = read_script(steps.clone(), Tail::EofForever) {
            if !allowed.contains(&m) {
                bad += 1;
                if first_bad.is_none() {
                    first_bad = Some((
                        String::from_utf8_lossy(&bytes[..cut]).into_owned(),
                        String::from_utf8_lossy(&bytes[cut..]).into_owned(),
                    ));
                }
            }
        }
    }
    assert!(bad == 0, "{bad}/{total} streams gave Ok with a wrong mesh; first: {first_bad:?}");
}

// ---------------------------------------------------------------------------
// Well-formed generator
// ---------------------------------------------------------------------------

fn fmt_f32(rng: &mut Rng, x: f32) -> String {
    match rng.below(4) {
        0 => format!("{x}"),
        1 => format!("{x:e}"),
        2 => format!("{x:E}"),
        _ => {
            if x >= 0.0 && !(x == 0.0 && x.is_sign_negative()) {
                format!("+{x}")
            } else {
                format!("{x}")
            }
        }
    }
}

fn rand_f32(rng: &mut Rng) -> f32 {
    match rng.below(6) {
        0 => (rng.below(2001) as f32 - 1000.0) / 8.0,
        1 => rng.below(100) as f32,
        2 => 0.0,
        3 => -0.0,
        _ => loop {
            let f = f32::from_bits(rng.next() as u32);
            if f.is_finite() {
                break f;
            }
        },
    }
}

/// Returns (text, expected verts bits, expected faces). If `commented_items`
/// is set, comments contain text that looks like items.
fn gen_well_formed(rng: &mut Rng, commented_items: bool) -> (String, Vec<[u32; 3]>, Vec<[usize; 3]>) {
    let nv = 1 + rng.below(8);
    let nt = rng.below(5);
    let nn = rng.below(5);
    let nf = rng.below(8);
    let ws = |rng: &mut Rng| -> String {
        let n = 1 + rng.below(3);
        (0..n).map(|_| if rng.below(4) == 0 { '\t' } else { ' ' }).collect()
    };
    let indent = |rng: &mut Rng| -> String {
        let n = rng.below(4);
        (0..n).map(|_| if rng.below(4) == 0 { '\t' } else { ' ' }).collect()
    };
    let mut vlines = vec![];
    let mut verts = vec![];
    for _ in 0..nv {
        let p = [rand_f32(rng), rand_f32(rng), rand_f32(rng)];
        verts.push(bits(p));
        let s = format!(
            "{}v{}{}{}{}{}{}",
            indent(rng),
            ws(rng),
            fmt_f32(rng, p[0]),
            ws(rng),
            fmt_f32(rng, p[1]),
            ws(rng),
            fmt_f32(rng, p[2])
        );
        vlines.push(s);
    }
    let mut other = vec![];
    for _ in 0..nt {
        other.push(format!("{}vt {} {}", indent(rng), rng.below(100) as f32 / 100.0, rng.below(100) as f32 / 100.0));
    }
    for _ in 0..nn {
        other.push(format!("{}vn {} {} {}", indent(rng), rand_f32(rng), rand_f32(rng), rand_f32(rng)));
    }
    let mut flines = vec![];
    let mut faces = vec![];
    for _ in 0..nf {
        let f = [rng.below(nv), rng.below(nv), rng.below(nv)];
        faces.push(f);
        let form = rng.below(4);
        let mut s = format!("{}f", indent(rng));
        for i in f {
            let idx = match rng.below(3) {
                0 => format!("{}", i + 1),
                1 => format!("+{}", i + 1),
                _ => format!("0{}", i + 1),
            };
            let t = 1 + rng.below(nt.max(1));
            let n = 1 + rng.below(nn.max(1));
            let c = match form {
                1 if nt > 0 => format!("{idx}/{t}"),
                2 if nn > 0 => format!("{idx}//{n}"),
                3 if nt > 0 && nn > 0 => format!("{idx}/{t}/{n}"),
                _ => idx,
            };
            s += &ws(rng);
            s += &c;
        }
        flines.push(s);
    }
    // Layout: interleave three ordered streams at random, with junk between
    let mut out = String::new();
    let (mut a, mut b, mut c) = (0, 0, 0);
    let faces_first = rng.coin();
    loop {
        let done = a == vlines.len() && b == other.len() && c == flines.len();
        if done && !out.ends_with('\n') {
            break; // last line was written without a line terminator
        }
        let junk = rng.below(6);
        match junk {
            0 => out += "\n",
            1 => {
                out += &indent(rng);
                out += "# a comment\n"
            }
            2 if commented_items => {
                out += &indent(rng);
                out += match rng.below(3) {
                    0 => "#v 7 7 7\n",
                    1 => "# f 1 1 1\n",
                    _ => "# was: v 1 2 3\n",
                }
            }
            3 => {
                out += &indent(rng);
                out += "\n"
            }
            _ => {}
        }
        let mut avail = vec![];
        if a < vlines.len() {
            avail.push(0)
        }
        if b < other.len() {
            avail.push(1)
        }
        if c < flines.len() {
            avail.push(2)
        }
        if avail.is_empty() {
            break;
        }
        let pick = if faces_first && c < flines.len() {
            2
        } else {
            avail[rng.below(avail.len())]
        };
        let line = match pick {
            0 => {
                a += 1;
                &vlines[a - 1]
            }
            1 => {
                b += 1;
                &other[b - 1]
            }
            _ => {
                c += 1;
                &flines[c - 1]
            }
        };
        out += line;
        let last = a == vlines.len() && b == other.len() && c == flines.len();
        if last && rng.coin() {
            // no trailing newline
        } else if rng.below(4) == 0 {
            out += "\r\n";
        } else {
            out += "\n";
        }
    }
    (out, verts, faces)
}

// ---------------------------------------------------------------------------
// Things that turned out fine
// ---------------------------------------------------------------------------

#[test]
fn ok_well_formed_random_faithful() {
    let mut rng = Rng(0xfeed_beef_cafe_0001);
    for _ in 0..5000 {
        let (text, verts, faces) = gen_well_formed(&mut rng, true);
        let got = parse(text.as_bytes()).unwrap_or_else(|e| panic!("{e:?} for {text:?}"));
        assert_eq!(got.0, verts, "{text:?}");
        assert_eq!(got.1, faces, "{text:?}");
        // same through read_obj with a slice, BufReader, tiny chunks
        let got2 = check_ok_builds(read_obj(text.as_bytes())).unwrap();
        assert_eq!(got2, got);
        let mut s = Script::new(vec![Data(text.clone().into_bytes())], Tail::EofForever);
        s.max_chunk = 1 + rng.below(3);
        let got3 = check_ok_builds(read_obj(BufReader::with_capacity(1 + rng.below(5), s))).unwrap();
        assert_eq!(got3, got);
    }
}

/// Without item-like text inside comments, a premature Ok(0) at any position
/// never yields a wrong Ok (it yields Err, the prefix mesh or the full mesh).
#[test]
fn ok_random_premature_eof_positions_without_commented_items() {
    let mut rng = Rng(0x1234_5678_9abc_def1);
    for _ in 0..3000 {
        let (text, _, _) = gen_well_formed(&mut rng, false);
        let bytes = text.into_bytes();
        let cut = rng.below(bytes.len() + 1);
        let steps = vec![Data(bytes[..cut].to_vec()), Eof, Data(bytes[cut..].to_vec())];
        let allowed = allowed_meshes(&steps);
        if let Ok(m) = read_script(steps.clone(), Tail::EofForever) {
            assert!(allowed.contains(&m), "{steps:?}");
        }
    }
}

#[test]
fn ok_random_bytes_never_panic() {
    let mut rng = Rng(0xdead_0000_1111_2222);
    let alphabet: &[u8] = b"vfnt#/ \t\n\r0123456789+-.eE\x00\x0b\x0c\x80\xa0\xff\xc3inaf";
    for _ in 0..40000 {
        let n = rng.below(40);
        let full = rng.below(4) == 0;
        let bytes: Vec<u8> = (0..n)
            .map(|_| if full { rng.next() as u8 } else { alphabet[rng.below(alphabet.len())] })
            .collect();
        let r = catch_unwind(AssertUnwindSafe(|| {
            let _ = parse(&bytes);
            let _ = check_ok_builds(read_obj(&bytes[..]));
        }));
        assert!(r.is_ok(), "panic on {bytes:?}");
    }
}

#[test]
fn ok_mutated_files_never_panic() {
    let mut rng = Rng(0x0bad_cafe_0000_0007);
    let nasty: &[&[u8]] = &[
        b"0", b"-1", b"18446744073709551615", b"18446744073709551616", b"4294967296",
        b"99999999999999999999999999", b"/", b"//", b"1e999", b"nan", b"inf", b"-inf",
        b"\n", b"\r", b" ", b"#", b"\xff", b"\x80", b"f", b"v", b"+", b"-", b"", b"0/0/0",
        b"1/0", b"1//0", b"-0", b"+0", b"00",
    ];
    for _ in 0..20000 {
        let (text, _, _) = gen_well_formed(&mut rng, false);
        let mut b = text.into_bytes();
        for _ in 0..1 + rng.below(3) {
            if b.is_empty() {
                break;
            }
            let at = rng.below(b.len());
            match rng.below(5) {
                0 => {
                    b.remove(at);
                }
                1 => b[at] = rng.next() as u8,
                2 => {
                    let ins = nasty[rng.below(nasty.len())];
                    b.splice(at..at, ins.iter().copied());
                }
                3 => {
                    // replace a token with nasty
                    let end = (at + 1 + rng.below(3)).min(b.len());
                    let ins = nasty[rng.below(nasty.len())];
                    b.splice(at..end, ins.iter().copied());
                }
                _ => b.truncate(at),
            }
        }
        let r = catch_unwind(AssertUnwindSafe(|| {
            let _ = parse(&b);
        }));
        assert!(r.is_ok(), "panic on {:?}", String::from_utf8_lossy(&b));
    }
}

#[test]
fn ok_specific_index_edge_cases() {
    let e = |s: &str| parse(s.as_bytes());
    // index 0 in every slot
    assert!(matches!(e("v 0 0 0\nf 0 1 1"), Err(Error::InvalidValue)));
    assert!(matches!(e("v 0 0 0\nvt 0 0\nf 1/0 1/1 1/1"), Err(Error::InvalidValue)));
    assert!(matches!(e("v 0 0 0\nvn 0 0 1\nf 1//0 1//1 1//1"), Err(Error::InvalidValue)));
    // negative
    assert!(matches!(e("v 0 0 0\nf -1 -1 -1"), Err(Error::InvalidValue)));
    assert!(matches!(e("v 0 0 0\nf 1 1 -0"), Err(Error::InvalidValue)));
    // +0
    assert!(matches!(e("v 0 0 0\nf +0 1 1"), Err(Error::InvalidValue)));
    // overflowing / max
    assert!(matches!(e("v 0 0 0\nf 18446744073709551616 1 1"), Err(Error::InvalidValue)));
    assert!(matches!(
        e("v 0 0 0\nf 18446744073709551615 1 1"),
        Err(Error::IndexOutOfBounds("vertex", i)) if i == usize::MAX - 1
    ));
    assert!(matches!(
        e("v 0 0 0\nvt 0 0\nf 1/18446744073709551615 1/1 1/1"),
        Err(Error::IndexOutOfBounds("texcoord", i)) if i == usize::MAX - 1
    ));
    assert!(matches!(
        e("v 0 0 0\nvn 0 0 0\nf 1//18446744073709551615 1//1 1//1"),
        Err(Error::IndexOutOfBounds("normal", i)) if i == usize::MAX - 1
    ));
    // faces without vertices
    assert!(matches!(e("f 1 1 1"), Err(Error::IndexOutOfBounds("vertex", 0))));
    assert!(matches!(e("f 1 2 3\n"), Err(Error::IndexOutOfBounds("vertex", 2))));
    // texcoord / normal 1 with none defined
    assert!(matches!(e("v 0 0 0\nf 1/1 1/1 1/1"), Err(Error::IndexOutOfBounds("texcoord", 0))));
    assert!(matches!(e("v 0 0 0\nf 1//1 1//1 1//1"), Err(Error::IndexOutOfBounds("normal", 0))));
    // only ONE corner has an attribute index; the max over Option handles it
    assert!(matches!(e("v 0 0 0\nf 1 1/1 1"), Err(Error::IndexOutOfBounds("texcoord", 0))));
    assert!(matches!(e("v 0 0 0\nf 1 1 1//2\nvn 0 0 1"), Err(Error::IndexOutOfBounds("normal", 1))));
    // exactly in range
    assert_eq!(e("f 1 1 1\nv 0 0 0").unwrap().1, vec![[0, 0, 0]]);
    // off by one
    assert!(matches!(e("f 1 1 2\nv 0 0 0"), Err(Error::IndexOutOfBounds("vertex", 1))));
    // missing fields
    assert!(matches!(e("v"), Err(Error::UnexpectedEnd)));
    assert!(matches!(e("v 1 2"), Err(Error::UnexpectedEnd)));
    assert!(matches!(e("vn 1 2"), Err(Error::UnexpectedEnd)));
    assert!(matches!(e("vt 1"), Err(Error::UnexpectedEnd)));
    assert!(matches!(e("f 1 2"), Err(Error::UnexpectedEnd)));
    assert!(matches!(e("v 1 2 3\nf 1 1 /"), Err(Error::InvalidValue)));
    assert!(matches!(e("v 1 2 3\nf 1 1 1//"), Err(Error::InvalidValue)));
    assert!(matches!(e("v 1 2 3\nf 1 1 /1"), Err(Error::InvalidValue)));
    // empty fields
    assert!(matches!(e("v 1 2 -"), Err(Error::InvalidValue)));
    assert!(matches!(e("v 1 2 +"), Err(Error::InvalidValue)));
    assert!(matches!(e("v 1 2 ."), Err(Error::InvalidValue)));
    assert!(matches!(e("v 1 2 e5"), Err(Error::InvalidValue)));
}

#[test]
fn ok_line_splitting_edge_cases() {
    let e = |s: &[u8]| parse(s);
    let one = bits([1.0, 2.0, 3.0]);
    // with / without trailing newline, CRLF, several newlines, leading newline
    for s in [
        &b"v 1 2 3"[..],
        b"v 1 2 3\n",
        b"v 1 2 3\r\n",
        b"v 1 2 3\n\n\n",
        b"\nv 1 2 3",
        b"\r\n\r\nv 1 2 3\r",
        b"\tv\t1\t2\t3\t\n",
        b"\x0cv\x0c1 2 3\x0c",
        b"v 1 2 3\n#",
        b"v 1 2 3\n#\n",
        b"#\nv 1 2 3\n #",
        b"v 1 2 3\n   ",
        b"v 1 2 3\n\t\r",
    ] {
        assert_eq!(e(s).unwrap().0, vec![one], "{:?}", String::from_utf8_lossy(s));
    }
    // lone newline / single bytes
    for s in [&b"\n"[..], b"\r", b" ", b"#", b"\n\n", b"#\n", b"# \xff\xfe"] {
        let m = e(s).unwrap();
        assert!(m.0.is_empty() && m.1.is_empty());
    }
    // control characters that are not whitespace lead to errors, not panics
    for s in [&b"v 1 2 3\x0b"[..], b"v\x0b1 2 3", b"v 1 2 3\x00", b"\x00", b"v 1 2 3\x1a", b"v\xa01 2 3", b"v 1 2 3\xa0"] {
        assert!(e(s).is_err(), "{:?}", String::from_utf8_lossy(s));
    }
    // non-ASCII item
    assert!(matches!(e(b"\xff 1 2 3"), Err(Error::UnsupportedItem(_))));
    assert!(matches!(e(b"\xef\xbb\xbfv 1 2 3"), Err(Error::UnsupportedItem(_))));
    // non-ASCII inside numbers
    assert!(matches!(e(b"v 1 2 \xb2"), Err(Error::InvalidValue))); // superscript two
    assert!(matches!(e(b"v 1 2 3\nf 1 1 \xb9"), Err(Error::InvalidValue))); // superscript one
}

#[test]
fn ok_float_forms() {
    let x = |s: &str| parse(format!("v {s} 0 0").as_bytes()).map(|m| f32::from_bits(m.0[0][0]));
    assert_eq!(x("1").unwrap(), 1.0);
    assert_eq!(x("+1").unwrap(), 1.0);
    assert_eq!(x("-1").unwrap(), -1.0);
    assert_eq!(x(".5").unwrap(), 0.5);
    assert_eq!(x("5.").unwrap(), 5.0);
    assert_eq!(x("1e3").unwrap(), 1000.0);
    assert_eq!(x("1E3").unwrap(), 1000.0);
    assert_eq!(x("1e+3").unwrap(), 1000.0);
    assert_eq!(x("1.5e-3").unwrap(), 0.0015);
    assert_eq!(x("-5.67e002").unwrap(), -567.0);
    assert_eq!(x("0001.5").unwrap(), 1.5);
    assert_eq!(x("-0").unwrap().to_bits(), (-0.0f32).to_bits());
    assert_eq!(x("1e-60").unwrap(), 0.0);
    assert_eq!(x("16777217").unwrap(), 16777216.0);
    assert_eq!(x(&"9".repeat(2000)).unwrap(), f32::INFINITY);
    assert_eq!(x(&format!("0.{}1", "0".repeat(2000))).unwrap(), 0.0);
    assert_eq!(x("1e99999999999999999999999").unwrap(), f32::INFINITY);
    assert_eq!(x("1e-99999999999999999999999").unwrap(), 0.0);
    assert!(x("1e").is_err());
    assert!(x("1e+").is_err());
    assert!(x("1.2.3").is_err());
    assert!(x("0x10").is_err());
    assert!(x("1_0").is_err());
    assert!(x("1,5").is_err());
    assert!(x("1f").is_err());
    assert!(x("--1").is_err());
    assert!(x("+-1").is_err());
}

#[test]
fn ok_io_error_is_latched_whatever_follows() {
    // error once in the middle of a line, then the data continues
    let k = ErrorKind::TimedOut;
    for tail in [Tail::EofForever, Tail::FailForever(ErrorKind::BrokenPipe)] {
        for steps in [
            vec![data("v 1 2 3\nv 4 5"), Fail(k), data(" 6\nf 1 2 2\n")],
            vec![Fail(k)],
            vec![Fail(k), data("v 1 2 3\n")],
            vec![data("v 1 2 3\n"), Fail(k)],
            vec![data("v 1 2 3\n"), Fail(k), data("v 1 2 3\n")],
            vec![data("v 1 2 3"), Fail(k), data("\n")],
            vec![data("v 1 2 3"), Fail(k)],
            vec![data("# "), Fail(k), data("v 1 2 3\n")],
            vec![data("v 1 2 3\n"), Eof, Fail(k)],
            vec![data("v 1 2 3"), Eof, Fail(k)], // <- error when polled again after EOF
            vec![data("v 1 2 3\n"), Fail(k), Fail(k), Fail(k), data("f 1 1 1")],
        ] {
            let r = read_script(steps.clone(), tail);
            match (&steps[..], tail) {
                // After "...\n" Ok(0) the reader is never polled again: Ok is right
                ([Data(_), Eof, Fail(_)], _) if matches!(&steps[0], Data(d) if d.ends_with(b"\n")) => {
                    assert_eq!(r.unwrap().0.len(), 1)
                }
                _ => assert!(matches!(r, Err(Error::Io(_))), "{steps:?} {tail:?} -> {r:?}"),
            }
        }
    }
}

#[test]
fn ok_error_forever_terminates() {
    for k in [ErrorKind::BrokenPipe, ErrorKind::WouldBlock, ErrorKind::Other, ErrorKind::UnexpectedEof] {
        let mut s = Script::new(vec![data("v 1 2 3\nv 4 5")], Tail::FailForever(k));
        let r = read_obj(&mut s);
        assert!(matches!(r, Err(Error::Io(ref e)) if e.kind() == k));
        assert!(s.polls_after_script <= 2, "polled {} times", s.polls_after_script);
        let mut s = Script::new(vec![], Tail::FailForever(k));
        let r = read_obj(BufReader::new(&mut s));
        assert!(matches!(r, Err(Error::Io(ref e)) if e.kind() == k));
    }
}

#[test]
fn ok_interrupted_finitely_often_is_retried() {
    let mut rng = Rng(77);
    for _ in 0..500 {
        let (text, verts, faces) = gen_well_formed(&mut rng, true);
        let b = text.as_bytes();
        let mut steps = vec![Intr];
        let mut at = 0;
        while at < b.len() {
            let n = 1 + rng.below(7);
            let end = (at + n).min(b.len());
            steps.push(Data(b[at..end].to_vec()));
            for _ in 0..rng.below(3) {
                steps.push(Intr);
            }
            at = end;
        }
        steps.push(Intr);
        let m = read_script(steps.clone(), Tail::EofForever).unwrap();
        assert_eq!((m.0, m.1), (verts.clone(), faces.clone()));
        let m = check_ok_builds(read_obj(BufReader::with_capacity(3, Script::new(steps, Tail::EofForever)))).unwrap();
        assert_eq!((m.0, m.1), (verts, faces));
    }
}

#[test]
fn ok_short_reads_and_wrappers() {
    let text = "f 1 2 3\n# c\nv 0 0 0\nv 1 0 0\n  v 0 1 0";
    let want = parse(text.as_bytes()).unwrap();
    for chunk in [1, 2, 3, 5, 1000] {
        for cap in [1, 2, 7, 8192] {
            let mut s = Script::new(vec![data(text)], Tail::EofForever);
            s.max_chunk = chunk;
            assert_eq!(check_ok_builds(read_obj(BufReader::with_capacity(cap, s))).unwrap(), want);
            let mut s = Script::new(vec![data(text)], Tail::EofForever);
            s.max_chunk = chunk;
            let mut br = BufReader::with_capacity(cap, &mut s);
            assert_eq!(check_ok_builds(read_obj(&mut br)).unwrap(), want);
        }
    }
    // Chain of halves, split mid-token
    let (a, b) = text.as_bytes().split_at(13);
    assert_eq!(check_ok_builds(read_obj(a.chain(b))).unwrap(), want);
    assert_eq!(check_ok_builds(read_obj(BufReader::new(a).chain(BufReader::new(b)))).unwrap(), want);
    assert_eq!(check_ok_builds(read_obj(BufReader::new(a.chain(b)))).unwrap(), want);
    // take()
    assert_eq!(check_ok_builds(read_obj(text.as_bytes().chain(&b"garbage"[..]).take(text.len() as u64))).unwrap(), want);
}

#[test]
fn ok_load_obj_errors() {
    assert!(matches!(load_obj("/nonexistent/definitely/not.obj"), Err(Error::Io(_))));
    // a directory: open() succeeds on Linux, read() fails
    assert!(matches!(load_obj("/tmp"), Err(Error::Io(_))));
    let p = std::env::temp_dir().join(format!("hunt-h2-{}.obj", std::process::id()));
    std::fs::write(&p, "v 1 2 3\nf 1 1 1").unwrap();
    let m = check_ok_builds(load_obj(&p)).unwrap();
    std::fs::remove_file(&p).unwrap();
    assert_eq!(m.1, vec![[0, 0, 0]]);
}

#[test]
fn ok_ok_builder_always_builds_exhaustive_small() {
    // all strings of length <= 5 over a small alphabet, plus a fixed prefix
    let alpha = b"f1 2/\nv0";
    let mut count = 0u64;
    let mut buf = vec![];
    fn rec(alpha: &[u8], buf: &mut Vec<u8>, depth: usize, count: &mut u64) {
        let mut full = b"v 0 0 0\n".to_vec();
        full.extend_from_slice(buf);
        let _ = parse(&full);
        let _ = parse(buf);
        *count += 1;
        if depth == 0 {
            return;
        }
        for &c in alpha {
            buf.push(c);
            rec(alpha, buf, depth - 1, count);
            buf.pop();
        }
    }
    rec(alpha, &mut buf, 6, &mut count);
    assert!(count > 200_000);
}

// ---------------------------------------------------------------------------
// Borderline (asserting the ACTUAL behaviour)
// ---------------------------------------------------------------------------

#[test]
fn b_polygons_are_silently_truncated() {
    let m = parse(b"v 0 0 0\nv 1 0 0\nv 1 1 0\nv 0 1 0\nf 1 2 3 4").unwrap();
    assert_eq!(m.1, vec![[0, 1, 2]]); // the quad's second half is dropped
    // ... and the dropped corners are not even validated:
    let m = parse(b"v 0 0 0\nf 1 1 1 99 0 -5 garbage").unwrap();
    assert_eq!(m.1, vec![[0, 0, 0]]);
}

#[test]
fn b_trailing_text_is_ignored() {
    assert_eq!(parse(b"v 1 2 3 4 5 6 hello").unwrap().0, vec![bits([1.0, 2.0, 3.0])]);
    assert_eq!(parse(b"v 1 2 3 # c").unwrap().0, vec![bits([1.0, 2.0, 3.0])]);
    assert!(parse(b"vt 0 0 0 0 zz").is_ok());
    assert!(parse(b"vn 0 0 0 0 zz").is_ok());
    // extra slash-fields too
    assert_eq!(parse(b"v 1 2 3\nf 1/1/1/zz 1 1\nvt 0 0\nvn 0 0 1").unwrap().1, vec![[0, 0, 0]]);
    // "1/" is accepted as "1"
    assert_eq!(parse(b"v 1 2 3\nf 1/ 1/ 1/").unwrap().1, vec![[0, 0, 0]]);
}

#[test]
fn b_lone_cr_is_not_a_line_break() {
    // classic-Mac line ends: everything after the first line is "trailing text"
    let m = parse(b"v 1 2 3\rv 4 5 6\rf 1 2 2").unwrap();
    assert_eq!(m.0.len(), 1);
    assert!(m.1.is_empty());
}

#[test]
fn b_unsupported_keywords_and_valid_obj_features_rejected() {
    for s in ["g grp", "o obj", "s 1", "usemtl m", "mtllib a.mtl", "vp 0 0", "l 1 2", "p 1"] {
        assert!(matches!(parse(s.as_bytes()), Err(Error::UnsupportedItem(_))), "{s}");
    }
    // relative (negative) indices: valid OBJ, rejected
    assert!(matches!(parse(b"v 0 0 0\nf -1 -1 -1"), Err(Error::InvalidValue)));
    // one-component texcoord: valid OBJ, rejected
    assert!(matches!(parse(b"vt 0.5"), Err(Error::UnexpectedEnd)));
    // line continuation
    assert!(parse(b"v 1 2 \\\n3").is_err());
    // keywords with a known prefix report the first letter only
    assert!(matches!(parse(b"vx 1 2 3"), Err(Error::UnsupportedItem('v'))));
    assert!(matches!(parse(b"f1 2 3"), Err(Error::UnsupportedItem('f'))));
}

#[test]
fn b_unsupported_item_char_is_wrong_for_non_ascii() {
    // byte 0xFF -> char U+00FF -> UTF-8 C3 BF -> reported as 0xC3 'Ã', not 'ÿ'
    assert!(matches!(parse(b"\xff"), Err(Error::UnsupportedItem('\u{c3}'))));
    // 'é' in Latin-1 (0xE9) is reported as 'Ã' as well
    assert!(matches!(parse(b"\xe9t\xe9"), Err(Error::UnsupportedItem('\u{c3}'))));
    // byte 0x80..0xBF -> reported as 'Â'
    assert!(matches!(parse(b"\xa0"), Err(Error::UnsupportedItem('\u{c2}'))));
}

#[test]
fn b_non_finite_coordinates_accepted() {
    let m = parse(b"v inf -inf nan\nv infinity NaN +Inf\nv 1e39 -1e39 0").unwrap();
    let v: Vec<[f32; 3]> = m.0.iter().map(|v| v.map(f32::from_bits)).collect();
    assert!(v[0][0] == f32::INFINITY && v[0][1] == f32::NEG_INFINITY && v[0][2].is_nan());
    assert!(v[1][0] == f32::INFINITY && v[1][1].is_nan() && v[1][2] == f32::INFINITY);
    assert!(v[2][0] == f32::INFINITY && v[2][1] == f32::NEG_INFINITY);
}

#[test]
fn b_index_forms_not_in_obj() {
    // '+' sign and leading zeros on indices are accepted
    assert_eq!(parse(b"v 0 0 0\nf +1 01 0000001").unwrap().1, vec![[0, 0, 0]]);
}

#[test]
fn b_texcoords_and_normals_checked_then_dropped() {
    // bad vt/vn data make the file fail although nothing of it is returned
    assert!(parse(b"v 0 0 0\nvn x y z").is_err());
    assert!(parse(b"v 0 0 0\nf 1/7 1/7 1/7").is_err());
    // mixed forms in one face are accepted
    assert!(parse(b"v 0 0 0\nvt 0 0\nvn 0 0 1\nf 1 1/1 1//1").is_ok());
}

#[test]
fn b_premature_eof_on_line_boundary_stops_inside_line_does_not() {
    // Ok(0) after a complete line: parse stops, the rest is never read.
    let r = read_script(vec![data("v 1 2 3\n"), Eof, data("v 4 5 6\n")], Tail::EofForever).unwrap();
    assert_eq!(r.0.len(), 1);
    // Ok(0) inside a line (here: before the newline): parse goes on.
    let r = read_script(vec![data("v 1 2 3"), Eof, data("\nv 4 5 6\n")], Tail::EofForever).unwrap();
    assert_eq!(r.0.len(), 2);
    // Ok(0) inside a token: the number is cut in two; happens to be an error
    let r = read_script(vec![data("v 1 2 3"), Eof, data("4\n")], Tail::EofForever);
    assert!(matches!(r, Err(Error::UnsupportedItem('4'))));
    // Both kinds in one stream: result is "up to the second Ok(0)"
    let r = read_script(
        vec![data("# a"), Eof, data(" \nv 1 2 3\n"), Eof, data("v 4 5 6\n")],
        Tail::EofForever,
    )
    .unwrap();
    assert_eq!(r.0.len(), 1);
    // A well-formed file can also turn into a spurious *parse* error (allowed
    // by the rule, but the message blames the file, not the stream):
    let r = read_script(vec![data("# a"), Eof, data(" b\nv 1 2 3\n")], Tail::EofForever);
    assert!(matches!(r, Err(Error::UnsupportedItem('b'))));
}

#[test]
fn b_after_an_io_error_reading_continues_and_last_error_wins() {
    let steps = vec![
        data("v 1 2 3"),
        Fail(ErrorKind::TimedOut),
        data("\nv 4 5 6"),
        Fail(ErrorKind::BrokenPipe),
        data("\nv 7 8 9\n"),
    ];
    let mut s = Script::new(steps, Tail::EofForever);
    let r = read_obj(&mut s);
    // the first error (TimedOut) is overwritten by the later one
    assert!(matches!(r, Err(Error::Io(ref e)) if e.kind() == ErrorKind::BrokenPipe), "{r:?}");
    // and the stream was drained to its end although it had already failed
    assert_eq!(s.at, 5);
    assert!(s.polls_after_script >= 1);
}

#[test]
fn b_inline_comment_without_space_is_an_error() {
    assert!(matches!(parse(b"v 1 2 3#c"), Err(Error::InvalidValue)));
    assert!(matches!(parse(b"v 1 2 3\nf 1 1 1#c"), Err(Error::InvalidValue)));
    // vertical tab is not treated as blank
    assert!(parse(b"\x0bv 1 2 3").is_err());
}

#[test]
fn b_error_on_poll_after_eof_fails_a_completely_delivered_file() {
    // Whole file delivered, Ok(0) returned once, but because the last line has
    // no '\n' the reader is polled a second time and that error wins.
    let r = read_script(vec![data("v 1 2 3")], Tail::EofForever).unwrap();
    assert_eq!(r.0.len(), 1);
    let r = read_script(vec![data("v 1 2 3"), Eof], Tail::FailForever(ErrorKind::Other));
    assert!(matches!(r, Err(Error::Io(_))));
    // With the trailing newline the reader is polled only once after the data
    let r = read_script(vec![data("v 1 2 3\n"), Eof], Tail::FailForever(ErrorKind::Other));
    assert_eq!(r.unwrap().0.len(), 1);
}

#[test]
fn b_parse_obj_with_non_fused_iterator_has_the_same_seam() {
    // parse_obj takes any IntoIterator; a non-fused one shows the same seam
    struct NonFused(Vec<Option<u8>>, usize);
    impl Iterator for NonFused {
        type Item = u8;
        fn next(&mut self) -> Option<u8> {
            let r = self.0.get(self.1).copied().flatten();
            self.1 += 1;
            r
        }
    }
    let mut items: Vec<Option<u8>> = b"#".iter().map(|&b| Some(b)).collect();
    items.push(None);
    items.extend(b"v 1 2 3\n".iter().map(|&b| Some(b)));
    let m = check_ok_builds(parse_obj(NonFused(items, 0))).unwrap();
    assert_eq!(m.0.len(), 1);
}

#[test]
fn b_interrupted_forever_spins() {
    // std's Bytes retries Interrupted without bound; read_obj inherits that.
    static STOP: AtomicBool = AtomicBool::new(false);
    static POLLS: AtomicU64 = AtomicU64::new(0);
    struct R;
    impl Read for R {
        fn read(&mut self, _: &mut [u8]) -> io::Result<usize> {
            POLLS.fetch_add(1, Ordering::Relaxed);
            if STOP.load(Ordering::Relaxed) {
                Ok(0)
            } else {
                Err(ErrorKind::Interrupted.into())
            }
        }
    }
    let (tx, rx) = mpsc::channel();
    let h = std::thread::spawn(move || {
        let r = read_obj(R);
        let _ = tx.send(r.is_ok());
    });
    let got = rx.recv_timeout(Duration::from_millis(500));
    assert!(got.is_err(), "read_obj returned although the reader only ever said Interrupted");
    assert!(POLLS.load(Ordering::Relaxed) > 1000);
    STOP.store(true, Ordering::Relaxed);
    h.join().unwrap();
    let _ = Arc::new(());
}
