//! Semantic hunt: text/binary equivalence and header spellings of the PNM
//! decoder. Every test asserts what a netpbm-literate reader expects.
//!
//! * `control_*`    must pass (sanity: the expectation machinery is right)
//! * `violation_*`  fail on the code under review: inside the wording of
//!                  the property
//! * `borderline_*` fail on the code under review, but the input is outside
//!                  (or arguably outside) the wording of the property
//! * `netpbm_same_*` pass: behaviour looks odd but is what netpbm does too

use retrofire_core::math::rgb;
use retrofire_core::util::buf::Buf2;
use retrofire_core::util::pnm::{parse_pnm, read_pnm, write_ppm, Error};

type Img = ((u32, u32), Vec<[u8; 3]>);

fn dec(bytes: &[u8]) -> Result<Img, Error> {
    let buf = parse_pnm(bytes.iter().copied())?;
    let dims = buf.dims();
    let px: Vec<[u8; 3]> = buf.data().iter().map(|c| c.0).collect();
    assert_eq!(px.len() as u64, dims.0 as u64 * dims.1 as u64);
    // read_pnm must agree with parse_pnm
    let via_read = read_pnm(bytes).map(|b| {
        (b.dims(), b.data().iter().map(|c| c.0).collect::<Vec<_>>())
    });
    assert_eq!(via_read, Ok((dims, px.clone())));
    Ok((dims, px))
}

fn gray(dims: (u32, u32), v: &[u8]) -> Result<Img, Error> {
    Ok((dims, v.iter().map(|&g| [g, g, g]).collect()))
}
fn cat(parts: &[&[u8]]) -> Vec<u8> {
    parts.concat()
}

// ---------------------------------------------------------------- controls

#[test]
fn control_text_equals_binary_lf_everything() {
    // Same 2x2 gray data; comments at every legal whitespace-preceded
    // position between the header fields, LF-terminated.
    let want = gray((2, 2), &[1, 35, 10, 255]);
    let p5 = b"P5 #a\n# b # 9 9\n#\n2\t#c\n \x0c\r\n2 #d\n255\n\x01#\n\xff";
    let p2 = b"P2 #a\n# b # 9 9\n#\n2\t#c\n \x0c\r\n2 #d\n255\n1\t35\r\n10   255";
    assert_eq!(dec(p5), want);
    assert_eq!(dec(p2), want);
    let want = Ok(((1, 2), vec![[1, 2, 3], [35, 10, 32]]));
    assert_eq!(dec(b"P6\n#x\n1 2\n255\n\x01\x02\x03#\n "), want);
    assert_eq!(dec(b"P3\n#x\n1 2\n255\n1 2 3\n35 10 32\n"), want);
    // comment directly after the magic number, no whitespace
    assert_eq!(dec(b"P5#x\n1 1 255\n\x07"), gray((1, 1), &[7]));
}

#[test]
fn control_round_trip_strided_view() {
    let buf = Buf2::new_from((5, 4), (0u8..).map(|i| rgb(i, b'#', b'\n')));
    let view = buf.slice((1..4, 1..3));
    let mut out = vec![];
    write_ppm(&mut out, view).unwrap();
    let back = read_pnm(&out[..]).unwrap();
    assert_eq!(back.dims(), (3, 2));
    let want: Vec<_> = [6u8, 7, 8, 11, 12, 13]
        .iter()
        .map(|&i| rgb(i, b'#', b'\n'))
        .collect();
    assert_eq!(back.data(), &want[..]);
    for dims in [(0, 0), (0, 3), (3, 0)] {
        let b: Buf2<_> = Buf2::new_from(dims, core::iter::empty());
        let mut out = vec![];
        write_ppm(&mut out, &b).unwrap();
        let back: Buf2<retrofire_core::math::Color3> =
            read_pnm(&out[..]).unwrap();
        assert_eq!(back.dims(), dims);
        assert_eq!(back.data().len(), 0);
    }
}

#[test]
fn control_extra_and_missing_data() {
    assert_eq!(dec(b"P5 2 1 255\n\x01\x02\x03\x04"), gray((2, 1), &[1, 2]));
    assert_eq!(dec(b"P2 2 1 255\n1 2 3 4"), gray((2, 1), &[1, 2]));
    assert_eq!(dec(b"P2 2 1 255\n1 2"), gray((2, 1), &[1, 2]));
    assert_eq!(dec(b"P2 2 1 255\n1 2 # trailing"), gray((2, 1), &[1, 2]));
    assert_eq!(dec(b"P5 2 1 255\n\x01"), Err(Error::UnexpectedEnd));
    assert_eq!(dec(b"P2 2 1 255\n1 "), Err(Error::UnexpectedEnd));
    assert_eq!(dec(b"P6 1 1 255\n\x01\x02"), Err(Error::UnexpectedEnd));
    assert_eq!(dec(b"P3 1 1 255\n1 2 "), Err(Error::UnexpectedEnd));
    assert_eq!(dec(b"P2 1 1 255\n256"), Err(Error::InvalidNumber));
    assert_eq!(dec(b"P3 0 7 255\n"), Ok(((0, 7), vec![])));
    assert_eq!(dec(b"P6 7 0 255"), Ok(((7, 0), vec![])));
}

// ------------------------------------------------- V1: CR-terminated comment
//
// netpbm (pbm(5): "from a # through the next carriage return or newline
// character"; libnetpbm pm_getc: `while (ch != '\n' && ch != '\r')`) ends a
// comment at CR *or* LF. parse_num only ends it at LF.

#[test]
fn violation_cr_terminated_comment_binary() {
    // Classic-Mac line ends, comment between magic number and width.
    let plain = b"P5\r1 1\r255\r\x07";
    let commented = b"P5\r# made by hand\r1 1\r255\r\x07";
    assert_eq!(dec(plain), gray((1, 1), &[7]));
    assert_eq!(dec(commented), gray((1, 1), &[7]));
}

#[test]
fn violation_cr_terminated_comment_text() {
    let plain = b"P2\r1 1\r255\r7\r";
    let commented = b"P2\r# made by hand\r1 1\r255\r7\r";
    assert_eq!(dec(plain), gray((1, 1), &[7]));
    assert_eq!(dec(commented), gray((1, 1), &[7]));
}

#[test]
fn violation_cr_terminated_comment_silently_wrong_dims() {
    // netpbm tokens: P2, 1, <comment "#c\r">, 2, 255, 5, 1, (255 5 6 extra)
    // => 1x2 image [5, 1]. No error is reported by retrofire; it returns
    // a 1x1 image instead: dimensions differ from those in the header.
    let f = b"P2 1 #c\r2 255 5\n1 255 5 6";
    assert_eq!(dec(f), gray((1, 2), &[5, 1]));
}

#[test]
fn violation_cr_between_width_and_height_p6() {
    let f = cat(&[b"P6 1 #c\r1 255\n", &[1, 2, 3]]);
    assert_eq!(dec(&f), Ok(((1, 1), vec![[1, 2, 3]])));
}

// ------------------------------------------------------- V2: VT whitespace
//
// C isspace() is SP, TAB, LF, VT, FF, CR; u8::is_ascii_whitespace has FF
// but not VT. pbm(5) only lists "blanks, TABs, CRs, LFs" and libnetpbm's
// pm_getuint skips exactly those four, so rejecting VT agrees with netpbm
// and accepting FF is a harmless leniency. Only a reader who takes
// "any whitespace" to mean isspace() would call the VT case a violation.

#[test]
fn control_ff_is_whitespace() {
    assert_eq!(dec(b"P5\x0c1\x0c1\x0c255\x0c\x07"), gray((1, 1), &[7]));
    assert_eq!(dec(b"P2\x0c1\x0c1\x0c255\x0c7\x0c"), gray((1, 1), &[7]));
}

#[test]
fn borderline_vt_is_whitespace_in_header() {
    assert_eq!(dec(b"P5 1\x0b1 255\n\x07"), gray((1, 1), &[7]));
}

#[test]
fn borderline_vt_is_whitespace_in_text_raster() {
    assert_eq!(dec(b"P2 1 2 255\n7\x0b8\n"), gray((1, 2), &[7, 8]));
}

// ------------------------------- B1: comment glued to the preceding token
//
// netpbm lets '#' start a comment anywhere, even directly after a digit.
// parse_num ends the token at '#', *consumes* it, and the next call starts
// with a fresh state machine (in_comment == false) in the comment body.

#[test]
fn borderline_comment_glued_to_width() {
    assert_eq!(dec(b"P5 1#c\n1 255\n\x07"), gray((1, 1), &[7]));
}

#[test]
fn borderline_comment_glued_to_width_silently_wrong() {
    // Here the comment body is numeric, so no error: "#3" is read as
    // height 3. netpbm: 1x1, maxval 255.
    let f = b"P2 1#3\n1 255 7 8 9";
    assert_eq!(dec(f), gray((1, 1), &[7]));
}

#[test]
fn borderline_comment_glued_to_maxval_binary() {
    // netpbm: the LF ending the comment is the raster delimiter => 7.
    // retrofire: '#' is the raster delimiter; raster = "c\n\x07".
    assert_eq!(dec(b"P5 1 1 255#c\n\x07"), gray((1, 1), &[7]));
}

#[test]
fn borderline_comment_glued_to_text_sample() {
    assert_eq!(dec(b"P2 2 1 255\n7#c\n8"), gray((2, 1), &[7, 8]));
}

// --------------------- B2: text and binary differ after the maxval field
//
// Same behaviour as netpbm (exactly one whitespace byte delimits a binary
// raster), but "the text and binary encodings ... decode to the same image"
// fails when the header spelling puts more than one whitespace byte, or a
// comment, after the maxval.

#[test]
fn netpbm_same_crlf_after_maxval_shifts_binary_raster() {
    assert_eq!(dec(b"P2 1 1 255\r\n7"), gray((1, 1), &[7]));
    // CR is the delimiter, LF is the first (and only used) raster byte
    assert_eq!(dec(b"P5 1 1 255\r\n\x07"), gray((1, 1), &[b'\n']));
    assert_eq!(
        dec(b"P6 1 1 255\r\n\x01\x02\x03"),
        Ok(((1, 1), vec![[b'\n', 1, 2]]))
    );
}

#[test]
fn netpbm_same_comment_after_maxval_is_raster_in_binary() {
    assert_eq!(dec(b"P2 1 1 255 #c\n7"), gray((1, 1), &[7]));
    assert_eq!(dec(b"P5 1 1 255 #c\n\x07"), gray((1, 1), &[b'#']));
    assert_eq!(dec(b"P2 1 1 255\n#c\n7"), gray((1, 1), &[7]));
    assert_eq!(dec(b"P5 1 1 255\n#c\n\x07"), gray((1, 1), &[b'#']));
}

// ------------------------------------------------ B3: maxval is ignored

#[test]
fn borderline_maxval_not_used_for_scaling() {
    // maxval 1: sample 1 is white.
    assert_eq!(dec(b"P2 1 1 1\n1"), gray((1, 1), &[255]));
}

#[test]
fn borderline_maxval_not_used_for_scaling_p5() {
    assert_eq!(dec(b"P5 1 1 15\n\x0f"), gray((1, 1), &[255]));
}

#[test]
fn borderline_sample_above_maxval_accepted() {
    assert!(dec(b"P2 1 1 15\n200").is_err());
}

#[test]
fn borderline_sample_above_maxval_accepted_p6() {
    assert!(dec(b"P6 1 1 15\n\xc8\x00\x00").is_err());
}

#[test]
fn borderline_maxval_zero_accepted() {
    assert!(dec(b"P5 1 1 0\n\x00").is_err());
}

#[test]
fn borderline_16_bit_text_and_binary_differ() {
    // maxval 65535: binary samples are 2 bytes, MSB first.
    let t = dec(b"P3 1 1 65535\n1 2 3");
    let b = dec(b"P6 1 1 65535\n\x00\x01\x00\x02\x00\x03");
    assert_eq!(t, b);
}

#[test]
fn borderline_16_bit_text_sample_rejected_binary_accepted() {
    let t = dec(b"P2 1 1 65535\n300");
    let b = dec(b"P5 1 1 65535\n\x01\x2c");
    assert_eq!(t.is_ok(), b.is_ok(), "text {t:?} binary {b:?}");
}

// ------------------------------------------------ B4: P4 rows not padded

#[test]
fn borderline_p4_rows_are_padded_to_bytes() {
    // netpbm: each row starts on a byte boundary. 4x2: two bytes.
    // row 0 = 0110 (w b b w), row 1 = 1001 (b w w b)
    let (w, b) = ([255u8; 3], [0u8; 3]);
    assert_eq!(
        dec(b"P4 4 2\n\x60\x90"),
        Ok(((4, 2), vec![w, b, b, w, b, w, w, b]))
    );
}

#[test]
fn borderline_p4_short_raster_accepted() {
    // 1x8 needs eight bytes in netpbm; one byte must be "unexpected end"
    assert_eq!(dec(b"P4 1 8\n\xaa"), Err(Error::UnexpectedEnd));
}

// ------------------------------------------------ B5: leniency in numbers

#[test]
fn borderline_plus_sign_accepted() {
    assert!(dec(b"P2 +1 +1 +255 +7").is_err());
}

// =====================================================================
// Differential enumeration against a model of libnetpbm's reader
// (pm_getc / pm_getuint, 8-bit samples, maxval fixed to 255).
// =====================================================================

mod model {
    pub struct Rd<'a>(pub &'a [u8], pub usize);
    impl Rd<'_> {
        fn raw(&mut self) -> Option<u8> {
            let b = self.0.get(self.1).copied();
            self.1 += 1;
            b
        }
        /// pm_getc: a '#' anywhere starts a comment that runs through the
        /// next CR or LF; that terminator is what the caller sees.
        fn getc(&mut self) -> Option<u8> {
            let mut c = self.raw()?;
            if c == b'#' {
                loop {
                    c = self.raw()?;
                    if c == b'\n' || c == b'\r' {
                        break;
                    }
                }
            }
            Some(c)
        }
        /// pm_getuint: skip blanks/TAB/CR/LF, read digits, consume the one
        /// byte that ends them.
        fn getuint(&mut self) -> Option<u32> {
            let mut c = self.getc()?;
            while matches!(c, b' ' | b'\t' | b'\n' | b'\r') {
                c = self.getc()?;
            }
            if !c.is_ascii_digit() {
                return None;
            }
            let mut n = 0u32;
            loop {
                n = n.checked_mul(10)?.checked_add((c - b'0') as u32)?;
                match self.getc() {
                    Some(d) if d.is_ascii_digit() => c = d,
                    _ => return Some(n), // EOF after digits is fine
                }
            }
        }
    }
    pub fn dec(f: &[u8]) -> Option<((u32, u32), Vec<[u8; 3]>)> {
        let mut r = Rd(f, 2);
        let fmt = f.get(..2)?;
        let (w, h, max) = (r.getuint()?, r.getuint()?, r.getuint()?);
        if max != 255 {
            return None;
        }
        let n = w.checked_mul(h)? as usize;
        let mut px = vec![];
        for _ in 0..n {
            px.push(match fmt {
                b"P5" => {
                    let g = r.raw()?;
                    [g, g, g]
                }
                b"P6" => [r.raw()?, r.raw()?, r.raw()?],
                b"P2" => {
                    let g = u8::try_from(r.getuint()?).ok()?;
                    [g, g, g]
                }
                b"P3" => {
                    let mut s = || u8::try_from(r.getuint()?).ok();
                    [s()?, s()?, s()?]
                }
                _ => return None,
            });
        }
        Some(((w, h), px))
    }
}

const ALPHA: &[u8] = b" \n\r\t#c3";

fn strings(max_len: usize) -> Vec<Vec<u8>> {
    let mut all: Vec<Vec<u8>> = vec![vec![]];
    let mut from = 0;
    for _ in 0..max_len {
        let to = all.len();
        for i in from..to {
            for &a in ALPHA {
                let mut s = all[i].clone();
                s.push(a);
                all.push(s);
            }
        }
        from = to;
    }
    all
}

/// Is `s` a separator in the sense of the property: one or more whitespace
/// bytes and whitespace-preceded comments? `cr_ends` says whether CR ends
/// a comment (netpbm) or only LF does. `lead` allows a comment at the very
/// start (directly after the magic number).
fn in_language(s: &[u8], cr_ends: bool, lead: bool) -> bool {
    let ws = |b: u8| matches!(b, b' ' | b'\t' | b'\r' | b'\n');
    let mut i = 0;
    let mut prev_ws = lead;
    if s.is_empty() {
        return false;
    }
    while i < s.len() {
        if ws(s[i]) {
            prev_ws = true;
            i += 1;
        } else if s[i] == b'#' && prev_ws {
            loop {
                i += 1;
                match s.get(i) {
                    None => return false, // unterminated
                    Some(b'\n') => break,
                    Some(b'\r') if cr_ends => break,
                    // strict mode: no CR inside a comment at all, so that
                    // both readings of "comment" agree
                    Some(b'\r') => return false,
                    _ => {}
                }
            }
            i += 1;
            prev_ws = true; // terminator is whitespace
        } else {
            return false;
        }
    }
    true
}

/// Builds files with `sep` in one of the four slots and compares.
fn differential(cr_ends: bool) -> Vec<String> {
    let mut bad = vec![];
    let mut checked = 0u32;
    let seps = strings(5);
    // a raster holding bytes that look like header syntax
    let bin: &[u8] = b"#\n3 \r#";
    let txt: &[u8] = b"35 10\t51\n32\r13 35\n";
    for slot in 0..4 {
        for sep in &seps {
            if !in_language(sep, cr_ends, slot == 0) {
                continue;
            }
            for fmt in [&b"P5"[..], b"P6", b"P2", b"P3"] {
                let text = fmt == b"P2" || fmt == b"P3";
                let d = |k: usize| if k == slot { &sep[..] } else { &b" "[..] };
                let (w, h): (&[u8], &[u8]) =
                    if fmt == b"P5" || fmt == b"P2" { (b"3", b"2") } else { (b"1", b"2") };
                let last = if slot == 3 { &sep[..] } else { &b"\n"[..] };
                let f = cat(&[
                    fmt, d(0), w, d(1), h, d(2), b"255", last,
                    if text { txt } else { bin },
                ]);
                let want = model::dec(&f);
                let got = dec(&f).ok();
                checked += 1;
                if want != got {
                    bad.push(format!(
                        "slot {slot} {:?}\n   model {want:?}\n   real  {got:?}",
                        String::from_utf8_lossy(&f)
                    ));
                }
            }
        }
    }
    eprintln!("checked {checked} files, {} divergences", bad.len());
    bad
}

#[test]
fn control_differential_lf_comments_only() {
    // With comments that contain no CR and end in LF, every in-language
    // header spelling decodes exactly as libnetpbm would, text and binary.
    let bad = differential(false);
    assert!(bad.is_empty(), "{}", bad[..bad.len().min(10)].join("\n"));
}

#[test]
fn violation_differential_cr_ends_comment() {
    let bad = differential(true);
    let silent: Vec<_> = bad
        .iter()
        .filter(|b| b.contains("model Some") && b.contains("real  Some"))
        .collect();
    assert!(
        bad.is_empty(),
        "{} divergences, {} of them silent (both decode, differently); \
         first silent: {:?}\nfirst few:\n{}",
        bad.len(),
        silent.len(),
        silent.first(),
        bad[..bad.len().min(4)].join("\n")
    );
}

#[test]
fn control_text_raster_separators() {
    // whitespace runs and whitespace-preceded LF comments between samples
    for sep in strings(4) {
        if !in_language(&sep, false, false) {
            continue;
        }
        let f = cat(&[b"P2 2 1 255\n7", &sep, b"8"]);
        assert_eq!(dec(&f), gray((2, 1), &[7, 8]), "{f:?}");
        let f = cat(&[b"P2 2 1 255\n7", &sep, b"8", &sep]);
        assert_eq!(dec(&f), gray((2, 1), &[7, 8]), "{f:?}");
        let f = cat(&[b"P3 1 1 255", &sep, b"7", &sep, b"8", &sep, b"9"]);
        assert_eq!(dec(&f), Ok(((1, 1), vec![[7, 8, 9]])), "{f:?}");
    }
}
