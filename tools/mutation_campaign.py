#!/usr/bin/env python3
"""Small-edit mutation campaign against the code C13 and C14 are anchored in.

For every single-token mutant of the anchored functions:
  1. apply it in a scratch worktree (never /repo);
  2. run the repository's own unit tests there; a mutant they kill is of no interest;
  3. for each survivor, build the simulator against the scratch worktree (a shadow copy
     of /verif/sim whose path dependencies point there) and run the property's quick tier.
Writes one JSON line per mutant to the output file. Everything lives under --work
(default /tmp/mc) and is deleted at the end unless --keep.

usage: tools/mutation_campaign.py [--jobs 4] [--limit N] [--only pnm|buf|io|mesh] [--out FILE]
"""
import argparse, json, os, re, shutil, subprocess, sys, threading, queue, time

REPO = "/repo"
VERIF = "/verif"

# (file, property, first line, last line) — the functions the properties are anchored in
def regions():
    def span(path, start_pat, end_pat):
        lines = open(os.path.join(REPO, path)).read().split("\n")
        s = next(i for i, l in enumerate(lines) if re.search(start_pat, l))
        e = next(i for i, l in enumerate(lines) if i > s and re.search(end_pat, l))
        return s + 1, e  # 1-based inclusive start, exclusive end
    out = []
    out.append(("core/src/util/pnm.rs", "C13", *span("core/src/util/pnm.rs", r"^impl Header \{", r"^/// Loads a PNM image from a path")))
    out.append(("core/src/util/pnm.rs", "C13", *span("core/src/util/pnm.rs", r"^pub fn load_pnm", r"^#\[cfg\(test\)\]")))
    out.append(("core/src/util/buf.rs", "C13", *span("core/src/util/buf.rs", r"pub fn new_from<I>", r"pub fn new\(\(w, h\): Dims\)")))
    out.append(("core/src/util/buf.rs", "C13", *span("core/src/util/buf.rs", r"fn to_index\(&self", r"/// A helper for implementing `Debug`")))
    out.append(("core/src/util/buf.rs", "C13", *span("core/src/util/buf.rs", r"pub\(super\) fn new\(dims @", r"/// Returns a reference to the element at `pos`")))
    out.append(("core/src/util/buf.rs", "C13", *span("core/src/util/buf.rs", r"pub fn rows\(&self\)", r"/// Returns an iterator over the elements of `self`")))
    out.append(("geom/src/io.rs", "C14", *span("geom/src/io.rs", r"^pub fn load_obj", r"^// Foreign trait impls")))
    out.append(("core/src/geom/mesh.rs", "C14", *span("core/src/geom/mesh.rs", r"pub fn new<F, V>", r"^impl<A> Mesh<A> \{")))
    out.append(("core/src/geom/mesh.rs", "C14", *span("core/src/geom/mesh.rs", r"pub fn build\(self\)", r"^impl Builder<\(\)> \{")))
    return out

SECOND = "--second" in sys.argv
OPS = [
    (r"<=", [">=", "<", "=="]), (r">=", ["<=", ">", "=="]),
    (r"(?<![<>=!-])<(?![<=])", ["<=", ">"]), (r"(?<![<>=!-])>(?![>=])", [">=", "<"]),
    (r"==", ["!="]), (r"!=", ["=="]),
    (r"&&", ["||"]), (r"\|\|", ["&&"]),
    (r"(?<![+\-*/=<>&|!] )(?<=[\w\)\]] )\+(?= [\w\(])", ["-"]), (r"(?<=[\w\)\]] )-(?= [\w\(])", ["+"]),
    (r"(?<=[\w\)\]] )\*(?= [\w\(])", ["+", "/"]),
    (r"\b0\b", ["1"]), (r"\b1\b", ["0", "2"]), (r"\b2\b", ["1", "3"]), (r"\b3\b", ["2", "4"]),
    (r"\b8\b", ["7", "9"]), (r"\b255\b", ["254", "256"]), (r"\b0xFF\b", ["0xFE"]),
    (r"\.max\(", [".min("]), (r"\.min\(", [".max("]),
    (r"checked_mul", ["wrapping_mul"]), (r"checked_sub", ["wrapping_sub"]),
    (r"\.take\(", [".skip("]), (r"\.rev\(\)", [""]), (r"\.cycle\(\)", [""]),
    (r"skip_while", ["take_while"]), (r"take_while", ["skip_while"]), (r"map_while", ["filter_map"]),
    (r"\btrue\b", ["false"]), (r"\bfalse\b", ["true"]),
    (r"(?<=[\(\s])!(?=[\w\(])", [""]),
    (r"\.is_some\(\)", [".is_none()"]), (r"\.is_empty\(\)", [".len() == 1"]),
    (r"\.and\(", [".or("]), (r"Some\(parse_index\((\w+)\)\?\)", ["None"]),
    (r"write_all", ["write"]), (r"\.flush\(\)", [".by_ref().write(&[]).map(drop)"]),
    (r"\bcontinue\b", ["break"]), (r" as usize\b", [" as u16 as usize", " as u8 as usize"]),
    (r"\bres\?;", ["let _ = res;"]), (r"rows\(\)", ["rows().skip(0).take(usize::MAX - 1)"]),
    (r"\.0\b", [".1"]), (r"\.1\b", [".0"]),
    (r"\bw\b", ["h"]), (r"\bh\b", ["w"]), (r"\bpos\b", ["n.unwrap_or(0)"]),
    (r"b'\\n'", ["b'\\r'"]), (r"b'#'", ["b'%'"]), (r"'\\n'", ["'\\r'"]), (r"b'/'|'/'", ["'\\\\'"]),
    (r"\bstride\b", ["dims.0"]),
]

OPS2 = [
    (r"\.\.(?![=.])", ["..="]), (r"\.\.=", [".."]),
    (r"\? - 1\b|\)\? - 1", None),
    (r"\.ok_or\((\w+)\)\?", [".unwrap_or_default()"]),
    (r"\.unwrap_or\(0\)", [".unwrap_or(1)"]), (r"\.unwrap_or\(w\)", [".unwrap_or(h)"]), (r"\.unwrap_or\(h\)", [".unwrap_or(w)"]),
    (r"\bl\b", ["t"]), (r"\bt\b", ["l"]), (r"\br\b", ["b"]), (r"\bb\b", ["r"]),
    (r"\(b - 1\)|b - 1\b", ["b"]), (r"\(h - 1\)", ["h"]), (r"\bx\b", ["y"]), (r"\by\b", ["x"]),
    (r"i == 2", ["i == 1", "i >= 2", "i != 0"]), (r"\(0\.\.3\)", ["(0..2)", "(0..4)", "(1..3)"]),
    (r"col\[i\]", ["col[2 - i]"]), (r"rgb\(c, c, c\)", ["rgb(c, c, 0)", "rgb(0, c, c)"]), (r"rgb\(val, val, val\)", ["rgb(val, val, 0)"]),
    (r"rgb\(ch, ch, ch\)", ["rgb(ch, 0, ch)"]),
    (r"in_comment = true", ["in_comment = false"]), (r"in_comment = false", ["in_comment = true"]),
    (r"in_comment \|\| ", [""]), (r"b\.is_ascii_whitespace\(\)", ["*b == b' '", "b.is_ascii_whitespace() || *b == 0x0b"]),
    (r"\.map\(char::from\)", [".map(|b| (b & 0x7f) as char)"]),
    (r"split_ascii_whitespace", ["split_whitespace"]), (r"split\('/'\)", ["splitn(2, '/')", "splitn(3, '/')"]),
    (r"!uv\.is_empty\(\)", ["true"]), (r"c != '\\n'", ["c != '\\n' && c != '\\r'", "c != '\\n' && c != '#'"]),
    (r"\[b'#', \.\.\]", ["[b'#']"]), (r"b\"v\" =>", ["b\"v\" | b\"vp\" =>"]), (r"b\"vt\" =>", ["b\"vt\" | b\"v\" =>"]),
    (r"max_i\.pos\.max\(i\.pos\)", ["i.pos"]), (r"max_i\.pos >= verts\.len\(\)", ["max_i.pos >= verts.len() + 1", "max_i.pos + 1 >= verts.len()"]),
    (r"vs\.map\(\|ics\| ics\.pos\)", ["vs.map(|ics| ics.uv.unwrap_or(ics.pos))", "{ let mut v = vs.map(|ics| ics.pos); v.swap(0, 1); v }"]),
    (r"j < verts\.len\(\)", ["j <= verts.len()"]), (r"\.all\(", [".any("]),
    (r"let x = ", ["let z = "]), (r"vec3\(x, y, z\)", ["vec3(x, z, y)", "vec3(y, x, z)"]), (r"uv\(u, v\)", ["uv(v, u)"]),
    (r"io_res = Err\(e\.into\(\)\);", [""]), (r"io_res\.and\(res\)", ["res", "res.and(io_res)"]),
    (r"line\.clear\(\);", [""]), (r"\.take\(len as usize\)", [".take(len as usize + 1)", ""]), (r"\.take\(count as usize\)", [".take(count as usize + 1)", ".take(count as usize - 1)"]),
    (r"\.take\(self\.dims\.1 as usize\)", ["", ".take(self.dims.0 as usize)"]), (r"self\.stride\.max\(1\)", ["self.stride.max(2)", "self.dims.0.max(1)"]),
    (r"\[\.\.self\.dims\.0 as usize\]", ["[..self.dims.1 as usize]", "[..]"]),
    (r"\(y \* self\.stride \+ x\)", ["(y * self.dims.0 + x)", "(x * self.stride + y)"]),
    (r"\(r - l, b - t\)", ["(b - t, r - l)", "(r - l + 1, b - t)"]), (r"self\.to_index\(l, t\)", ["self.to_index(t, l)", "self.to_index(l, 0)"]),
    (r"self\.to_index\(r, b - 1\)", ["self.to_index(r, b)", "self.to_index(w, b - 1)"]), (r"self\.to_index\(r, t\)", ["self.to_index(l, t)"]),
    (r"Slice2::new\(dims, self\.stride,", ["Slice2::new(dims, dims.0,"]), (r"Inner::new\(dims, self\.stride,", ["Inner::new(dims, dims.0,"]),
    (r"Inner::new\(\(w, h\), w, data\)", ["Inner::new((h, w), w, data)", "Inner::new((w, h), h.max(w), data)"]),
    (r"writeln!\(dest, \"\{format\} \{w\} \{h\} \{max\}\"\)", ["writeln!(dest, \"{format} {h} {w} {max}\")", "write!(dest, \"{format} {w} {h} {max}\")", "writeln!(dest, \"{format} {w} {h} {max} \")", "writeln!(dest, \"{format}  {w}  {h}  {max}\\r\")"]),
    (r"max: 255,", ["max: 256,", "max: 65535,"]), (r"format: BinaryPixmap,", ["format: TextPixmap,", "format: BinaryGraymap,"]),
    (r"&rgb\[\.\.\]", ["&rgb[..2]", "&[rgb[2], rgb[1], rgb[0]]"]), (r"\.map\(\|c\| c\.0\)", [".map(|c| [c.0[0], c.0[1], c.0[1]])"]),
    (r"b\"P2\" => TextGraymap", ["b\"P2\" => TextPixmap"]), (r"b\"P5\" => BinaryGraymap", ["b\"P5\" => BinaryPixmap"]), (r"b\"P3\" => TextPixmap", ["b\"P3\" => TextGraymap"]),
    (r"TextBitmap \| BinaryBitmap => 1,", ["TextBitmap | BinaryBitmap | BinaryGraymap => 1,"]),
    (r"let max: u16", ["let max: u8"]), (r"parse_num\(&mut it\)\?, parse_num\(&mut it\)\?", None),
    (r"BufReader::new\(", ["BufReader::with_capacity(3, "]), (r"BufWriter::new\(", ["BufWriter::with_capacity(0, "]),
    (r"File::create\(path\)\?", ["File::options().append(true).create(true).open(path)?"]),
]

def mutants():
    seen = set()
    for path, prop, lo, hi in regions():
        lines = open(os.path.join(REPO, path)).read().split("\n")
        for ln in range(lo, hi):
            line = lines[ln - 1]
            code = line.split("//")[0]
            if not code.strip() or code.strip().startswith(("#[", "///", "assert!(", '"')):
                continue
            for pat, repls in (OPS2 if SECOND else OPS):
                if repls is None:
                    continue
                for m in re.finditer(pat, code):
                    for r in repls:
                        new = line[:m.start()] + m.expand(r) if "\\" in r and False else line[:m.start()] + r + line[m.end():]
                        key = (path, ln, new)
                        if new == line or key in seen:
                            continue
                        seen.add(key)
                        yield {"file": path, "property": prop, "line": ln, "before": line.strip(), "after": new.strip(), "_new": new}

def sh(cmd, cwd=None, env=None, timeout=1800):
    e = dict(os.environ); e.update(env or {}); e["CARGO_NET_OFFLINE"] = "true"
    try:
        p = subprocess.run("exec timeout -k 5 %d bash -c %s" % (timeout, __import__("shlex").quote(cmd)), cwd=cwd, env=e, shell=True, capture_output=True, text=True)
        return p.returncode, p.stdout + p.stderr
    except subprocess.TimeoutExpired as ex:
        return 124, "timeout"

def worker(i, work, q, out_f, lock):
    wt = f"{work}/wt-{i}"; sim = f"{work}/sim-{i}"; outdir = f"{work}/out-{i}"
    sh(f"git -C {REPO} worktree add -q --detach {wt} HEAD")
    os.makedirs(sim, exist_ok=True); os.makedirs(outdir, exist_ok=True)
    man = open(f"{VERIF}/sim/Cargo.toml").read().replace("/repo/core", f"{wt}/core").replace("/repo/geom", f"{wt}/geom")
    open(f"{sim}/Cargo.toml", "w").write(man)
    shutil.copy(f"{VERIF}/sim/Cargo.lock", f"{sim}/Cargo.lock")
    os.makedirs(f"{sim}/.cargo", exist_ok=True)
    open(f"{sim}/.cargo/config.toml", "w").write('[net]\noffline = true\n[build]\nrustflags = ["--cfg", "retrofire_verif"]\n')
    if not os.path.exists(f"{sim}/src"):
        shutil.copytree(f"{VERIF}/sim/src", f"{sim}/src")
    env_t = {"CARGO_TARGET_DIR": f"{wt}/target"}
    env_s = {"CARGO_TARGET_DIR": f"{sim}/target", "VERIF_SCRATCH": outdir}
    while True:
        try:
            m = q.get_nowait()
        except queue.Empty:
            break
        t0 = time.time()
        path = os.path.join(wt, m["file"])
        sh("git checkout -q -- .", cwd=wt)
        lines = open(path).read().split("\n")
        lines[m["line"] - 1] = m["_new"]
        open(path, "w").write("\n".join(lines))
        rec = {k: v for k, v in m.items() if not k.startswith("_")}
        rc, out = sh("cargo test -p retrofire-core -p retrofire-geom --features retrofire-core/std,retrofire-geom/std --offline --lib -q", cwd=wt, env=env_t, timeout=400)
        if "error[" in out or "error:" in out and "could not compile" in out:
            rec["status"] = "does-not-compile"
        elif rc != 0:
            rec["status"] = "killed-by-unit-tests"
        else:
            rc1, o1 = sh("cargo build --offline --quiet && cargo build --offline --quiet --release", cwd=sim, env=env_s)
            if rc1 != 0:
                rec["status"] = "harness-build-failed"; rec["detail"] = o1[-400:]
            else:
                rc2, o2 = sh(f"{sim}/target/debug/sim run {m['property']} quick --release-bin {sim}/target/release/sim --out {outdir}", env=env_s, timeout=1200)
                classes = re.findall(r"^violation oracle=(\w) class=(\S+)", o2, re.M)
                rec["check_exit"] = rc2
                rec["classes"] = [f"{a}:{b}" for a, b in classes][:6]
                rec["status"] = {0: "SURVIVED-undetected", 1: "detected"}.get(rc2, "harness-error")
                if rc2 not in (0, 1):
                    rec["detail"] = o2[-400:]
        rec["secs"] = round(time.time() - t0, 1)
        with lock:
            out_f.write(json.dumps(rec) + "\n"); out_f.flush()
    sh("git checkout -q -- .", cwd=wt)
    sh(f"git -C {REPO} worktree remove --force {wt}")

def main():
    ap = argparse.ArgumentParser()
    ap.add_argument("--jobs", type=int, default=4); ap.add_argument("--limit", type=int, default=0)
    ap.add_argument("--only", default=""); ap.add_argument("--work", default="/tmp/mc")
    ap.add_argument("--out", default=f"{VERIF}/selftest/mutation_campaign/results.jsonl"); ap.add_argument("--keep", action="store_true")
    ap.add_argument("--list", action="store_true"); ap.add_argument("--second", action="store_true")
    a = ap.parse_args()
    ms = [m for m in mutants() if a.only in m["file"]]
    if a.limit:
        ms = ms[:: max(1, len(ms) // a.limit)][: a.limit]
    if a.list:
        for m in ms:
            print(m["file"], m["line"], "|", m["before"], "=>", m["after"])
        print(len(ms), "mutants"); return
    os.makedirs(a.work, exist_ok=True); os.makedirs(os.path.dirname(a.out), exist_ok=True)
    q = queue.Queue()
    for m in ms:
        q.put(m)
    lock = threading.Lock()
    with open(a.out, "w") as f:
        ts = [threading.Thread(target=worker, args=(i, a.work, q, f, lock)) for i in range(a.jobs)]
        [t.start() for t in ts]; [t.join() for t in ts]
    if not a.keep:
        shutil.rmtree(a.work, ignore_errors=True)
    sh(f"git -C {REPO} worktree prune")
    print("done", len(ms))

if __name__ == "__main__":
    main()
