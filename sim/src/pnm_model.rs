//! C13 data model: workloads (library writer, foreign writer, raw bytes), the harness
//! encoders for every spelling, and the conservative reference decoder.

use serde::{Deserialize, Serialize};

use crate::core::escaped;
use crate::rng::splitmix;
use crate::seams::*;

// ---------------------------------------------------------------------------
// Scenario
// ---------------------------------------------------------------------------

#[derive(Serialize, Deserialize, Clone, Debug, PartialEq)]
pub struct PnmScenario {
    pub work: PnmWork,
    /// Used by `PnmWork::Lib` only: how the sink behind `write_ppm` behaves.
    pub writer: WriterCfg,
    pub disk: Vec<DiskFault>,
    pub reader: ReaderCfg,
    /// Additionally run the path-based wrappers (`save_ppm`, `load_pnm`) against the real
    /// file system, fault-free, and compare them with the stream functions.
    #[serde(default)]
    pub via_path: bool,
}

#[derive(Serialize, Deserialize, Clone, Debug, PartialEq)]
pub enum PnmWork {
    /// The real `write_ppm` produces the file.
    Lib(LibImage),
    /// The harness spells the file (other formats, other header spellings).
    Foreign(Foreign),
    /// Given bytes (sweeps, headers of images far larger than their body).
    Raw {
        #[serde(with = "escaped")]
        bytes: Vec<u8>,
    },
}

#[derive(Serialize, Deserialize, Clone, Debug, PartialEq)]
pub enum Pix {
    /// SplitMix64 output.
    Seeded(u64),
    Const(u8),
    /// Cycled.
    Pattern(#[serde(with = "escaped")] Vec<u8>),
    /// Runs of identical three-byte pixels (lengths 1..=40) from a SplitMix64 stream: flat
    /// areas, repeated rows, the kind of data a "fast path" would key on.
    Runs(u64),
}

pub fn pix_bytes(p: &Pix, n: usize) -> Vec<u8> {
    match p {
        Pix::Seeded(s) => {
            let mut st = *s;
            let mut v = Vec::with_capacity(n + 8);
            while v.len() < n {
                v.extend_from_slice(&splitmix(&mut st).to_le_bytes());
            }
            v.truncate(n);
            v
        }
        Pix::Const(c) => vec![*c; n],
        Pix::Runs(s) => {
            let mut st = *s;
            let mut v = Vec::with_capacity(n + 128);
            while v.len() < n {
                let r = splitmix(&mut st);
                let px = [r as u8, (r >> 8) as u8, (r >> 16) as u8];
                // now and then a pixel made of one repeated byte, or of "syntax" bytes
                let px = match (r >> 24) % 8 {
                    0 => [px[0]; 3],
                    1 => [b'\n', b'#', b' '],
                    _ => px,
                };
                for _ in 0..1 + (r >> 32) % 40 {
                    v.extend_from_slice(&px);
                }
            }
            v.truncate(n);
            v
        }
        Pix::Pattern(p) if p.is_empty() => vec![0; n],
        Pix::Pattern(p) => p.iter().copied().cycle().take(n).collect(),
    }
}

#[derive(Serialize, Deserialize, Clone, Copy, Debug, PartialEq, Eq)]
pub struct RectU {
    pub x: u32,
    pub y: u32,
    pub w: u32,
    pub h: u32,
}

#[derive(Serialize, Deserialize, Clone, Copy, Debug, PartialEq, Eq)]
pub enum View {
    /// `write_ppm(out, buf)` — `Buf2` by value.
    Owned,
    /// `write_ppm(out, &buf)`.
    Ref,
    /// `buf.slice(rect)`.
    Slice(RectU),
    /// `buf.slice(outer).slice(inner)`.
    Nested(RectU, RectU),
    /// `buf.slice_mut(rect)`.
    MutSlice(RectU),
    /// `Slice2::new((w, h), stride, &data[offset..])` over the backing data.
    SliceNew { w: u32, h: u32, stride: u32, offset: u32 },
}

#[derive(Serialize, Deserialize, Clone, Debug, PartialEq)]
pub struct LibImage {
    /// Dimensions of the backing `Buf2`.
    pub bw: u32,
    pub bh: u32,
    pub pixels: Pix,
    pub view: View,
}

impl LibImage {
    /// Dimensions and pixels the written image has by construction of the view, computed
    /// from the backing data by plain index arithmetic (no library code).
    pub fn expected(&self) -> (u32, u32, Vec<[u8; 3]>) {
        let data = pix_bytes(&self.pixels, (self.bw * self.bh * 3) as usize);
        let px = |i: usize| [data[3 * i], data[3 * i + 1], data[3 * i + 2]];
        let rect = |r: RectU, stride: u32, off: usize| -> Vec<[u8; 3]> {
            if r.w == 0 || r.h == 0 {
                return vec![];
            }
            let mut v = Vec::with_capacity((r.w * r.h) as usize);
            for y in 0..r.h {
                for x in 0..r.w {
                    v.push(px(off + ((r.y + y) * stride + r.x + x) as usize));
                }
            }
            v
        };
        match self.view {
            View::Owned | View::Ref => {
                let r = RectU { x: 0, y: 0, w: self.bw, h: self.bh };
                (self.bw, self.bh, rect(r, self.bw, 0))
            }
            View::Slice(r) | View::MutSlice(r) => (r.w, r.h, rect(r, self.bw, 0)),
            View::Nested(o, i) => {
                let r = RectU { x: o.x + i.x, y: o.y + i.y, w: i.w, h: i.h };
                (i.w, i.h, rect(r, self.bw, 0))
            }
            View::SliceNew { w, h, stride, offset } => {
                (w, h, rect(RectU { x: 0, y: 0, w, h }, stride, offset as usize))
            }
        }
    }
}

#[derive(Serialize, Deserialize, Clone, Debug, PartialEq)]
pub struct Foreign {
    /// 2, 3, 5 or 6.
    pub fmt: u8,
    pub w: u32,
    pub h: u32,
    pub max: u32,
    pub pixels: Pix,
    /// Whitespace/comment runs after the magic, the width and the height.
    #[serde(with = "escaped")]
    pub sep0: Vec<u8>,
    #[serde(with = "escaped")]
    pub sep1: Vec<u8>,
    #[serde(with = "escaped")]
    pub sep2: Vec<u8>,
    /// The single whitespace byte before a binary raster; for text formats, the
    /// first byte of the run before the first sample.
    pub pre_raster: u8,
    /// Text formats: whitespace runs between samples, cycled (`sep[0]` also follows
    /// `pre_raster` when non-empty ... see `render`).
    pub sample_seps: Vec<String>,
    /// Text formats: whitespace after the last sample.
    pub trailing: String,
    /// Minimum width of each decimal token (width, height, maxval, then text samples),
    /// cycled; shorter tokens are padded with leading zeros. Empty = no padding.
    #[serde(default)]
    pub zero_pad: Vec<u8>,
}

impl Foreign {
    pub fn is_grey(&self) -> bool {
        self.fmt == 2 || self.fmt == 5
    }
    pub fn is_text(&self) -> bool {
        self.fmt == 2 || self.fmt == 3
    }
    pub fn n_samples(&self) -> usize {
        (self.w as usize) * (self.h as usize) * if self.is_grey() { 1 } else { 3 }
    }
    /// Sample values, each `<= max.min(255)`.
    pub fn samples(&self) -> Vec<u8> {
        let m = self.max.min(255);
        pix_bytes(&self.pixels, self.n_samples())
            .into_iter()
            .map(|b| if m >= 255 { b } else { (b as u32 % (m + 1)) as u8 })
            .collect()
    }
    /// The same pixel data in the other encoding of the same colour model.
    pub fn twin(&self) -> Foreign {
        let fmt = match self.fmt {
            2 => 5,
            5 => 2,
            3 => 6,
            _ => 3,
        };
        let mut t = self.clone();
        t.fmt = fmt;
        if t.sample_seps.is_empty() {
            t.sample_seps = vec![" ".into()];
        }
        t
    }
    pub fn render(&self) -> Vec<u8> {
        self.render_parts().0
    }
    /// The file and the offset of its first raster byte.
    pub fn render_parts(&self) -> (Vec<u8>, usize) {
        let mut tok = 0usize;
        let mut num = |out: &mut Vec<u8>, v: u32| {
            let s = v.to_string();
            let w = if self.zero_pad.is_empty() { 0 } else { self.zero_pad[tok % self.zero_pad.len()] as usize };
            tok += 1;
            for _ in s.len()..w {
                out.push(b'0');
            }
            out.extend_from_slice(s.as_bytes());
        };
        let mut out = Vec::new();
        out.extend_from_slice(format!("P{}", self.fmt).as_bytes());
        out.extend_from_slice(&self.sep0);
        num(&mut out, self.w);
        out.extend_from_slice(&self.sep1);
        num(&mut out, self.h);
        out.extend_from_slice(&self.sep2);
        num(&mut out, self.max);
        out.push(self.pre_raster);
        let hl = out.len();
        let s = self.samples();
        if self.is_text() {
            for (i, v) in s.iter().enumerate() {
                if i > 0 {
                    let sep = &self.sample_seps[(i - 1) % self.sample_seps.len()];
                    out.extend_from_slice(sep.as_bytes());
                }
                num(&mut out, *v as u32);
            }
            out.extend_from_slice(self.trailing.as_bytes());
        } else {
            out.extend_from_slice(&s);
        }
        (out, hl)
    }
    /// Offset of the first raster byte.
    pub fn header_len(&self) -> usize {
        self.render_parts().1
    }
}

// ---------------------------------------------------------------------------
// Reference decoder — conservative: Accept only inside the grammar C13 spells out
// ---------------------------------------------------------------------------

#[derive(Clone, Debug, PartialEq, Eq)]
pub struct RefHeader {
    pub fmt: u8,
    pub w: u32,
    pub h: u32,
    pub max: u32,
    /// Offset of the first byte after the single whitespace that ends the header.
    pub raster: usize,
    /// A field is spelled with leading zeros: the value is unambiguous, but refusing
    /// such a spelling is defensible.
    pub soft: bool,
}

#[derive(Clone, Debug, PartialEq, Eq)]
pub enum RefBody {
    /// RGB image (P3/P6).
    Rgb(Vec<[u8; 3]>),
    /// Grey samples (P2/P5); C13 does not pin how grey maps to RGB, only that both
    /// spellings agree.
    Grey(Vec<u8>),
    /// The header is inside the grammar and everything after it is raster data, but there
    /// is less of it than the header announces (a torn or truncated file). No image of
    /// those dimensions is in the file: an `Ok` would have to invent pixels.
    Short(&'static str),
    Unsure(&'static str),
}

#[derive(Clone, Debug, PartialEq, Eq)]
pub struct RefPnm {
    pub header: Option<RefHeader>,
    pub body: RefBody,
    /// "Soft" acceptance: if the decoder answers `Ok`, it must be this image, but an
    /// error is tolerated (zero-padded numerals, bytes after a complete binary raster).
    pub soft: bool,
}

fn is_ws(b: u8) -> bool {
    b == b' ' || b == b'\t' || b == b'\r' || b == b'\n'
}

/// Skips a run of whitespace and whitespace-preceded comments; at least one
/// whitespace byte is required. Returns the new position.
fn skip_sep(b: &[u8], mut i: usize) -> Option<usize> {
    let start = i;
    let mut prev_ws = false;
    loop {
        match b.get(i) {
            Some(&c) if is_ws(c) => {
                prev_ws = true;
                i += 1;
            }
            Some(b'#') if prev_ws => {
                while let Some(&c) = b.get(i) {
                    i += 1;
                    if c == b'\n' {
                        break;
                    }
                }
                // the LF that ends a comment is whitespace; an unterminated comment
                // runs into the end of the file and the next field will be missing
                prev_ws = true;
            }
            _ => break,
        }
    }
    (i > start).then_some(i)
}

/// Decimal field: at most 80 characters (leading zeros), a value that fits `u32`. The flag says
/// whether it carries leading zeros.
fn field(b: &[u8], i: usize) -> Option<(u32, usize, bool)> {
    let mut j = i;
    while j < b.len() && b[j].is_ascii_digit() {
        j += 1;
    }
    if j == i || j - i > 80 {
        return None;
    }
    let mut k = i;
    while k + 1 < j && b[k] == b'0' {
        k += 1;
    }
    if j - k > 10 {
        return None;
    }
    // at most ten significant digits, and the value must fit 32 bits
    let v = std::str::from_utf8(&b[k..j]).ok()?.parse::<u32>().ok()?;
    Some((v, j, k > i))
}

pub fn ref_header(b: &[u8]) -> Option<RefHeader> {
    if b.len() < 2 || b[0] != b'P' || !(b'2'..=b'6').contains(&b[1]) {
        return None;
    }
    let fmt = b[1] - b'0';
    let i = skip_sep(b, 2)?;
    let (w, i, p0) = field(b, i)?;
    let i = skip_sep(b, i)?;
    let (h, i, p1) = field(b, i)?;
    let (max, i, p2) = if fmt == 4 {
        (1, i, false)
    } else {
        let i = skip_sep(b, i)?;
        let (m, i, p) = field(b, i)?;
        if m == 0 || m > 65535 {
            return None;
        }
        (m, i, p)
    };
    // exactly one whitespace byte, then the raster
    if !is_ws(*b.get(i)?) {
        return None;
    }
    Some(RefHeader { fmt, w, h, max, raster: i + 1, soft: p0 || p1 || p2 })
}

pub fn ref_pnm(b: &[u8]) -> RefPnm {
    use RefBody::*;
    let Some(hd) = ref_header(b) else {
        return RefPnm { header: None, body: Unsure("header outside the grammar"), soft: false };
    };
    let mut soft = hd.soft;
    let body = (|| {
        if hd.fmt == 4 {
            return Unsure("P4 is not covered by the property");
        }
        if hd.w == 0 || hd.h == 0 {
            return Unsure("zero dimension");
        }
        if hd.max > 255 {
            return Unsure("maxval above 255");
        }
        let grey = hd.fmt == 2 || hd.fmt == 5;
        // (w, h < 2^32: the product fits u64 only without the factor 3)
        let n = (hd.w as u64 * hd.h as u64).saturating_mul(if grey { 1 } else { 3 });
        let raster = &b[hd.raster..];
        let samples: Vec<u8> = if hd.fmt >= 5 {
            if (raster.len() as u64) < n {
                return Short("binary raster shorter than the header says");
            }
            if raster.len() as u64 > n {
                soft = true;
            }
            raster[..n as usize].to_vec()
        } else {
            let mut v = Vec::new();
            let mut i = 0;
            loop {
                while i < raster.len() && is_ws(raster[i]) {
                    i += 1;
                }
                if i == raster.len() {
                    break;
                }
                let s = i;
                while i < raster.len() && raster[i].is_ascii_digit() {
                    i += 1;
                }
                let mut k = s;
                while k + 1 < i && raster[k] == b'0' {
                    k += 1;
                }
                if i == s || i - s > 80 || i - k > 3 {
                    return Unsure("text raster token is not a short decimal");
                }
                if k > s {
                    soft = true;
                }
                if i < raster.len() && !is_ws(raster[i]) {
                    return Unsure("text raster token followed by a non-whitespace byte");
                }
                let val: u32 = std::str::from_utf8(&raster[s..i]).unwrap().parse().unwrap();
                if val > 255 {
                    return Unsure("sample above 255");
                }
                v.push(val as u8);
                if v.len() as u64 > n {
                    return Unsure("more text samples than the header says");
                }
            }
            if v.len() as u64 != n {
                return Short("fewer text samples than the header says");
            }
            v
        };
        if samples.iter().any(|&s| s as u32 > hd.max) {
            return Unsure("sample above maxval");
        }
        if grey {
            Grey(samples)
        } else {
            Rgb(samples.chunks_exact(3).map(|c| [c[0], c[1], c[2]]).collect())
        }
    })();
    let soft = soft && !matches!(body, Unsure(_) | Short(_));
    RefPnm { header: Some(hd), body, soft }
}

/// For oracle A: does `stored` start with a P6 encoding (`maxval` 255) of exactly this
/// image? Trailing bytes are tolerated here, because only *decodability to the image
/// that was written* is stated (a zero-height view legitimately gets some).
pub fn is_p6_encoding_of(stored: &[u8], w: u32, h: u32, px: &[[u8; 3]]) -> Result<(), String> {
    let Some(hd) = ref_header(stored) else {
        return Err("stored bytes have no readable PNM header".into());
    };
    if hd.fmt != 6 {
        return Err(format!("stored magic is P{}, not P6", hd.fmt));
    }
    if (hd.w, hd.h) != (w, h) {
        return Err(format!("stored header says {}x{}, image is {w}x{h}", hd.w, hd.h));
    }
    if hd.max != 255 {
        return Err(format!("stored maxval {} for 8-bit channels", hd.max));
    }
    let raster = &stored[hd.raster..];
    if raster.len() < 3 * px.len() {
        return Err(format!("stored raster has {} bytes, image needs {}", raster.len(), 3 * px.len()));
    }
    for (i, p) in px.iter().enumerate() {
        if raster[3 * i..3 * i + 3] != p[..] {
            return Err(format!(
                "stored pixel {i} (x={}, y={}) is {:?}, image has {:?}",
                i as u32 % w.max(1),
                i as u32 / w.max(1),
                &raster[3 * i..3 * i + 3],
                p
            ));
        }
    }
    // A binary PPM of a w x h image is its header and exactly 3*w*h raster bytes. Whatever
    // follows was not part of the image that was handed over (pixels of the parent buffer
    // outside the view, a stale tail of a scratch buffer): it is not "this image as binary
    // PPM", and a reader of the stream takes it for the start of a further image.
    if raster.len() > 3 * px.len() {
        return Err(format!(
            "{} surplus bytes follow the {} raster bytes of the {w}x{h} image (first: {:?})",
            raster.len() - 3 * px.len(),
            3 * px.len(),
            &raster[3 * px.len()..raster.len().min(3 * px.len() + 6)]
        ));
    }
    Ok(())
}
