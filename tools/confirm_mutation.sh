#!/bin/bash
# usage: tools/confirm_mutation.sh <dir with patch.diff + demo.rs> <core|geom> <scratch worktree>
# Confirms independently: suite passes with the change, demo fails with it, demo passes without it.
set -u
dir=$(readlink -f "$1"); crate=$2; wt=$3
export CARGO_TARGET_DIR=$wt/target CARGO_NET_OFFLINE=true
cd "$wt" || exit 2
git checkout -q -- . && git clean -fdq -e target
git apply "$dir/patch.diff" || { echo "PATCH-DOES-NOT-APPLY"; exit 2; }
suite=$(cargo test -p retrofire-core -p retrofire-geom --features retrofire-core/std,retrofire-geom/std --offline 2>&1 | grep -E "^test result" | awk '{p+=$4; f+=$6} END {print p" passed "f" failed"}')
mkdir -p $crate/tests && cp "$dir/demo.rs" $crate/tests/demo.rs
cargo test -p retrofire-$crate --features std --offline --test demo >/tmp/demo_with.log 2>&1; with=$?
git checkout -q -- . 
cargo test -p retrofire-$crate --features std --offline --test demo >/tmp/demo_without.log 2>&1; without=$?
rm -rf $crate/tests/demo.rs; rmdir $crate/tests 2>/dev/null
git clean -fdq -e target
echo "suite_with_change: $suite ; demo_with_change_exit=$with ; demo_without_change_exit=$without"
