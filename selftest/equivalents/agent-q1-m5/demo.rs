//! Exercises the clauses of property C13 (PNM codec: lossless round trip and
//! total decoding, under any stream behaviour std::io allows). Only what the
//! property promises is asserted; where behaviour may legitimately differ
//! (which error, how many flushes, whether a transient error is retried),
//! every outcome the property allows is accepted.

use std::io::{self, ErrorKind, Read, Write};

use retrofire_core::math::{rgb, Color3};
use retrofire_core::util::buf::{AsSlice2, Buf2};
use retrofire_core::util::pnm::{parse_pnm, read_pnm, write_ppm, Error};

// ---------------------------------------------------------------- streams

/// Accepts at most `chunk` bytes per call; every `intr`th call (write or
/// flush, if `intr_flush`) fails with Interrupted first. Bytes only count as
/// delivered once a flush has succeeded after them.
struct Sink {
    bytes: Vec<u8>,
    committed: usize,
    chunk: usize,
    intr: usize,
    intr_flush: usize, // number of flush calls that fail with Interrupted
    calls: usize,
    flushes: usize,
    fail_after: Option<usize>, // writes fail once this many bytes are held
    fail_flush: bool,
    zero: bool,
}

impl Sink {
    fn new(chunk: usize, intr: usize) -> Self {
        Sink {
            bytes: vec![],
            committed: 0,
            chunk,
            intr,
            intr_flush: 0,
            calls: 0,
            flushes: 0,
            fail_after: None,
            fail_flush: false,
            zero: false,
        }
    }
}

impl Write for Sink {
    fn write(&mut self, buf: &[u8]) -> io::Result<usize> {
        self.calls += 1;
        if self.intr > 0 && self.calls % self.intr == 0 {
            return Err(ErrorKind::Interrupted.into());
        }
        if self.zero {
            return Ok(0);
        }
        let mut n = buf.len().min(self.chunk);
        if let Some(limit) = self.fail_after {
            let room = limit.saturating_sub(self.bytes.len());
            if room == 0 && !buf.is_empty() {
                return Err(io::Error::new(ErrorKind::Other, "sink full"));
            }
            n = n.min(room);
        }
        self.bytes.extend_from_slice(&buf[..n]);
        Ok(n)
    }
    fn flush(&mut self) -> io::Result<()> {
        self.flushes += 1;
        if self.intr_flush > 0 {
            self.intr_flush -= 1;
            return Err(ErrorKind::Interrupted.into());
        }
        if self.fail_flush {
            return Err(io::Error::new(ErrorKind::Other, "flush failed"));
        }
        self.committed = self.bytes.len();
        Ok(())
    }
}

#[derive(Clone, Copy, PartialEq)]
enum Ev {
    /// Fail with this kind, transferring nothing.
    Fail(ErrorKind),
    /// Report end of input (Ok(0)) although data remains.
    Eof,
}

/// Returns at most `chunk` bytes per call; every `intr`th call fails with
/// Interrupted first; `events` fire once each when the position is reached.
struct Source {
    data: Vec<u8>,
    pos: usize,
    chunk: usize,
    intr: usize,
    calls: usize,
    events: Vec<(usize, Ev, usize)>, // position, what, how many times
    reads_after_end: usize,
    ended: bool,
}

impl Source {
    fn new(data: &[u8], chunk: usize, intr: usize) -> Self {
        Source {
            data: data.to_vec(),
            pos: 0,
            chunk,
            intr,
            calls: 0,
            events: vec![],
            reads_after_end: 0,
            ended: false,
        }
    }
    fn with(mut self, at: usize, ev: Ev, times: usize) -> Self {
        self.events.push((at, ev, times));
        self
    }
}

impl Read for Source {
    fn read(&mut self, buf: &mut [u8]) -> io::Result<usize> {
        if buf.is_empty() {
            return Ok(0);
        }
        if self.ended {
            self.reads_after_end += 1;
        }
        self.calls += 1;
        if self.intr > 0 && self.calls % self.intr == 0 {
            return Err(ErrorKind::Interrupted.into());
        }
        for e in self.events.iter_mut() {
            if e.0 == self.pos && e.2 > 0 {
                e.2 -= 1;
                match e.1 {
                    Ev::Fail(k) => return Err(k.into()),
                    Ev::Eof => {
                        self.ended = true;
                        return Ok(0);
                    }
                }
            }
        }
        let n = buf.len().min(self.chunk).min(self.data.len() - self.pos);
        if n == 0 {
            self.ended = true;
        }
        buf[..n].copy_from_slice(&self.data[self.pos..self.pos + n]);
        self.pos += n;
        Ok(n)
    }
}

// ---------------------------------------------------------------- helpers

fn pixel(x: u32, y: u32) -> Color3 {
    rgb((x * 37 + y * 11) as u8, (x * 5 + y * 101 + 10) as u8, (x ^ (y * 77)) as u8)
}

fn pixels_of(img: &impl AsSlice2<Color3>) -> ((u32, u32), Vec<Color3>) {
    let s = img.as_slice2();
    let (w, h) = s.dims();
    let mut v = vec![];
    for y in 0..h {
        for x in 0..w {
            v.push(s[[x, y]]);
        }
    }
    ((w, h), v)
}

fn check_image(got: &Buf2<Color3>, dims: (u32, u32), px: &[Color3]) {
    assert_eq!(got.dims(), dims);
    assert_eq!(got.data().len() as u64, dims.0 as u64 * dims.1 as u64);
    assert_eq!(got.data(), px);
}

/// A decoded image must be consistent with itself.
fn check_consistent(got: &Buf2<Color3>) {
    let (w, h) = got.dims();
    assert_eq!(got.data().len() as u64, w as u64 * h as u64);
}

fn p6(w: u32, h: u32, px: &[Color3]) -> Vec<u8> {
    let mut v = format!("P6 {w} {h} 255\n").into_bytes();
    for c in px {
        v.extend_from_slice(&c.0);
    }
    v
}

// ------------------------------------------------------------- round trip

#[test]
fn round_trip_strided_view_through_slow_streams() {
    let buf = Buf2::new_with((7, 5), pixel);
    let view = buf.slice((1..5, 1..4));
    assert_eq!(view.dims(), (4, 3));
    assert_eq!(view.stride(), 7);
    let (dims, px) = pixels_of(&view);

    for (chunk, intr) in [(1, 3), (1, 2), (2, 5), (usize::MAX, 0)] {
        let mut sink = Sink::new(chunk, intr);
        write_ppm(&mut sink, view).expect("transient write errors only");
        assert_eq!(sink.committed, sink.bytes.len(), "all bytes flushed");

        for (rchunk, rintr) in [(1, 3), (1, 2), (3, 4), (usize::MAX, 0)] {
            let src = Source::new(&sink.bytes, rchunk, rintr);
            let got = read_pnm(src).expect("transient read errors only");
            check_image(&got, dims, &px);
        }
        check_image(&parse_pnm(sink.bytes.iter().copied()).unwrap(), dims, &px);
    }
}

#[test]
fn round_trip_owned_and_zero_sized() {
    for dims in [(0, 0), (0, 3), (3, 0), (1, 1), (1, 6), (6, 1), (5, 4)] {
        let buf = Buf2::new_with(dims, pixel);
        let (_, px) = pixels_of(&buf);
        let mut sink = Sink::new(1, 4);
        write_ppm(&mut sink, &buf).unwrap();
        assert_eq!(sink.committed, sink.bytes.len());
        let got = read_pnm(Source::new(&sink.bytes, 1, 3)).unwrap();
        check_image(&got, dims, &px);
    }
    // Zero-sized views into a larger buffer
    let buf = Buf2::new_with((4, 4), pixel);
    for rect in [(1..1, 0..4), (0..4, 2..2), (4..4, 0..4), (2..2, 3..3)] {
        let view = buf.slice(rect);
        let dims = view.dims();
        let mut out = vec![];
        write_ppm(&mut out, view).unwrap();
        check_image(&read_pnm(&out[..]).unwrap(), dims, &[]);
    }
}

// ------------------------------------------------- text/binary agreement

#[test]
fn text_and_binary_encodings_agree() {
    let (w, h) = (3u32, 2u32);
    let px: Vec<Color3> = (0..h).flat_map(|y| (0..w).map(move |x| pixel(x, y))).collect();
    let gray: Vec<u8> = px.iter().map(|c| c.0[0]).collect();

    let headers = [
        format!("{{M}} {w} {h} 255\n"),
        format!("{{M}}\n# a comment\n{w}\t{h}\r\n255\n"),
        format!("{{M}} #c1\n #c2 12 34\n{w} # width\n {h} \n# max next\n\n255 "),
        format!("{{M}}\x0c{w} \r {h}\n  #  255 is not this\n  255\t"),
    ];
    for hd in &headers {
        // P3 / P6
        let mut bin = hd.replace("{M}", "P6").into_bytes();
        let mut txt = hd.replace("{M}", "P3");
        for (i, c) in px.iter().enumerate() {
            bin.extend_from_slice(&c.0);
            let [r, g, b] = c.0;
            let sep = [" ", "\n", "\t", "  \r\n"][i % 4];
            txt += &format!("{r}{sep}{g} {b}{sep}");
            if i == 2 {
                txt += "# a comment in the raster\n";
            }
        }
        let a = parse_pnm(bin.iter().copied()).unwrap();
        let b = parse_pnm(txt.bytes()).unwrap();
        check_image(&a, (w, h), &px);
        check_image(&b, (w, h), &px);
        let c = read_pnm(Source::new(&bin, 1, 3)).unwrap();
        let d = read_pnm(Source::new(txt.as_bytes(), 1, 2)).unwrap();
        check_image(&c, (w, h), &px);
        check_image(&d, (w, h), &px);

        // P2 / P5
        let gpx: Vec<Color3> = gray.iter().map(|&g| rgb(g, g, g)).collect();
        let mut bin = hd.replace("{M}", "P5").into_bytes();
        bin.extend_from_slice(&gray);
        let mut txt = hd.replace("{M}", "P2");
        for g in &gray {
            txt += &format!("{g}\n");
        }
        check_image(&parse_pnm(bin.iter().copied()).unwrap(), (w, h), &gpx);
        check_image(&parse_pnm(txt.bytes()).unwrap(), (w, h), &gpx);
        check_image(&read_pnm(Source::new(&bin, 2, 3)).unwrap(), (w, h), &gpx);
        check_image(&read_pnm(Source::new(txt.as_bytes(), 1, 5)).unwrap(), (w, h), &gpx);
    }
}

// ---------------------------------------------------- malformed/truncated

#[test]
fn malformed_and_truncated_inputs_are_errors() {
    let cases: &[&[u8]] = &[
        b"",
        b"P",
        b"P6",
        b"P7 1 1 255\n\0\0\0",
        b"P1 1 1\n1",
        b"FOO",
        b"P6 1",
        b"P6 1 1",
        b"P6 1 1 ",
        b"P6 x 1 255\n\0\0\0",
        b"P6 1 -1 255\n\0\0\0",
        b"P6 1 1 65536\n\0\0\0",
        b"P6 2 2 255\n\x01\x02\x03\x04\x05\x06\x07\x08\x09\x0a\x0b",
        b"P6 1 1 255\n",
        b"P5 2 2 255\n\x01\x02\x03",
        b"P3 1 1 255\n1 2",
        b"P3 1 1 255\n1 2 x",
        b"P3 1 1 255\n1 2 256",
        b"P2 2 1 255\n1",
        b"P2 2 1 255\n1 -1",
        b"P4 8 2\n\xff",
        b"P6 65536 65536 255\n\0\0\0",
        b"P6 70000 70000 255\n\0\0\0",
        b"P5 99999999999 1 255\n\0",
        b"P3 4294967295 4294967295 255\n1 2 3",
        b"P5 20000 20000 255\n\0\0\0\0",
        b"P3 30000 30000 255\n1 2 3",
        b"P2 60000 60000 255\n1 2 3",
        b"P4 60000 60000\n\0\0\0",
        b"\xff\xfe\x00garbage",
    ];
    for &c in cases {
        let name = String::from_utf8_lossy(c).into_owned();
        assert!(parse_pnm(c.iter().copied()).is_err(), "parse {name:?}");
        assert!(read_pnm(c).is_err(), "read {name:?}");
        assert!(read_pnm(Source::new(c, 1, 3)).is_err(), "slow read {name:?}");
    }
}

#[test]
fn every_truncation_of_a_valid_file_is_an_error() {
    let px: Vec<Color3> = (0..6).map(|i| pixel(i, 1)).collect();
    let file = p6(3, 2, &px);
    for n in 0..file.len() {
        assert!(parse_pnm(file[..n].iter().copied()).is_err(), "cut at {n}");
        assert!(read_pnm(Source::new(&file[..n], 1, 2)).is_err(), "cut at {n}");
    }
    let txt = b"P3 2 1 255\n1 2 3 4 5 6";
    // Cutting inside the last number yields a different, complete number, so
    // stop before it
    for n in 0..txt.len() - 1 {
        assert!(parse_pnm(txt[..n].iter().copied()).is_err(), "cut at {n}");
    }
}

#[test]
fn arbitrary_bytes_never_panic_and_results_are_consistent() {
    // A small deterministic generator; structured prefixes so that some
    // inputs get past the header
    let mut s = 0x2545F491u32;
    let mut next = move || {
        s ^= s << 13;
        s ^= s >> 17;
        s ^= s << 5;
        s
    };
    let alphabet = b"P123456 \n\t\r#0123456789-+x\x0b\x0c\0\xff";
    for i in 0..3000 {
        let len = next() % 40;
        let mut v: Vec<u8> = vec![];
        if i % 2 == 0 {
            v.extend_from_slice(format!("P{} ", 1 + next() % 7).as_bytes());
        }
        for _ in 0..len {
            v.push(alphabet[(next() as usize) % alphabet.len()]);
        }
        if let Ok(img) = parse_pnm(v.iter().copied()) {
            check_consistent(&img);
        }
        if let Ok(img) = read_pnm(Source::new(&v, 1, 3)) {
            check_consistent(&img);
        }
    }
    // Huge but zero-area images are fine
    let img = parse_pnm(*b"P6 0 4000000000 255\n").unwrap();
    assert_eq!(img.dims(), (0, 4000000000));
    check_consistent(&img);
    let img = parse_pnm(*b"P5 4000000000 0 255\n").unwrap();
    assert_eq!(img.dims(), (4000000000, 0));
    check_consistent(&img);
}

// ---------------------------------------------------------- failing sinks

#[test]
fn failing_writer_gives_err() {
    let buf = Buf2::new_with((5, 4), pixel);
    let view = buf.slice((1..4, 0..3));
    let mut full = vec![];
    write_ppm(&mut full, view).unwrap();

    // Write error at every offset
    for limit in 0..full.len() {
        for chunk in [1, 4, usize::MAX] {
            let mut sink = Sink::new(chunk, 3);
            sink.fail_after = Some(limit);
            let res = write_ppm(&mut sink, view);
            assert!(res.is_err(), "limit {limit}");
        }
    }
    // A writer that accepts nothing
    let mut sink = Sink::new(1, 0);
    sink.zero = true;
    assert!(write_ppm(&mut sink, view).is_err());

    // A writer that cannot flush: Ok(()) would claim delivery
    let mut sink = Sink::new(8, 0);
    sink.fail_flush = true;
    assert!(write_ppm(&mut sink, view).is_err());
    // ... even for an empty image
    let mut sink = Sink::new(8, 0);
    sink.fail_flush = true;
    assert!(write_ppm(&mut sink, Buf2::<Color3>::new((0, 0))).is_err());

    // Through a buffering writer the error only shows up on flush
    let mut sink = Sink::new(usize::MAX, 0);
    sink.fail_after = Some(full.len() - 1);
    let res = write_ppm(io::BufWriter::with_capacity(1 << 16, &mut sink), view);
    assert!(res.is_err());
}

#[test]
fn interrupted_flush_is_retried_or_reported() {
    let buf = Buf2::new_with((3, 3), pixel);
    let mut full = vec![];
    write_ppm(&mut full, &buf).unwrap();
    for n in [1, 2, 7] {
        let mut sink = Sink::new(2, 0);
        sink.intr_flush = n;
        match write_ppm(&mut sink, &buf) {
            // Either the interruption is reported ...
            Err(e) => assert_eq!(e.kind(), ErrorKind::Interrupted),
            // ... or everything was delivered and flushed after all
            Ok(()) => {
                assert_eq!(sink.bytes, full);
                assert_eq!(sink.committed, sink.bytes.len());
            }
        }
    }
}

#[test]
fn success_means_flushed_however_often() {
    let buf = Buf2::new_with((4, 6), pixel);
    let mut sink = Sink::new(1, 0);
    write_ppm(&mut sink, &buf).unwrap();
    assert!(sink.flushes >= 1);
    assert_eq!(sink.committed, sink.bytes.len());
    let (dims, px) = pixels_of(&buf);
    check_image(&read_pnm(&sink.bytes[..]).unwrap(), dims, &px);
}

// -------------------------------------------------------- failing sources

#[test]
fn read_errors_are_reported_not_swallowed() {
    let px: Vec<Color3> = (0..6).map(|i| pixel(i, 2)).collect();
    let file = p6(2, 3, &px);
    for at in 0..file.len() {
        for kind in [ErrorKind::Other, ErrorKind::BrokenPipe, ErrorKind::TimedOut] {
            // A persistent failure at a byte the decoder needs
            let src = Source::new(&file, 1, 3).with(at, Ev::Fail(kind), usize::MAX);
            match read_pnm(src) {
                Err(Error::Io(k)) => assert_eq!(k, kind),
                other => panic!("at {at}: {other:?}"),
            }
            // A failure that happens once: an error, or - if the operation
            // chose to go on - the right image; never a wrong one
            let src = Source::new(&file, 1, 0).with(at, Ev::Fail(kind), 1);
            match read_pnm(src) {
                Err(_) => {}
                Ok(img) => check_image(&img, (2, 3), &px),
            }
        }
    }
}

#[test]
fn would_block_is_reported_or_ridden_out() {
    let px: Vec<Color3> = (0..4).map(|i| pixel(i, 3)).collect();
    let file = p6(2, 2, &px);
    for at in [0, 3, 11, file.len() - 1] {
        for times in [1, 2, 5] {
            let src = Source::new(&file, 1, 4)
                .with(at, Ev::Fail(ErrorKind::WouldBlock), times);
            match read_pnm(src) {
                Err(Error::Io(k)) => assert_eq!(k, ErrorKind::WouldBlock),
                Err(e) => panic!("unexpected {e:?}"),
                Ok(img) => check_image(&img, (2, 2), &px),
            }
        }
        // A source that never becomes ready: must end, with an error
        let src = Source::new(&file, 1, 4)
            .with(at, Ev::Fail(ErrorKind::WouldBlock), usize::MAX);
        assert_eq!(read_pnm(src).err(), Some(Error::Io(ErrorKind::WouldBlock)));
    }
}

#[test]
fn premature_end_of_input_is_final() {
    let px: Vec<Color3> = (0..4).map(|i| pixel(i, 4)).collect();
    let file = p6(2, 2, &px);
    for at in 0..file.len() {
        let mut src = Source::new(&file, 1, 3).with(at, Ev::Eof, 1);
        let res = read_pnm(&mut src);
        assert!(res.is_err(), "eof at {at} gave {res:?}");
        assert_eq!(src.reads_after_end, 0, "read past end of input");
    }
    // Same for the formats that read "the rest"
    let gray = b"P5 2 2 255\n\x01\x02\x03\x04";
    for at in 0..gray.len() {
        let mut src = Source::new(gray, 1, 0).with(at, Ev::Eof, 1);
        assert!(read_pnm(&mut src).is_err(), "eof at {at}");
        assert_eq!(src.reads_after_end, 0);
    }
    let bits = b"P4 4 4\n\x12\x34\x56\x78";
    for at in 0..bits.len() - 2 {
        let mut src = Source::new(bits, 1, 0).with(at, Ev::Eof, 1);
        assert!(read_pnm(&mut src).is_err(), "eof at {at}");
        assert_eq!(src.reads_after_end, 0);
    }
}

// ------------------------------------------- corners left open by property

#[test]
fn surplus_raster_bytes_do_not_change_the_image() {
    let want = [rgb(1, 1, 1), rgb(2, 2, 2), rgb(3, 3, 3), rgb(4, 4, 4)];
    let img = parse_pnm(*b"P5 2 2 255\n\x01\x02\x03\x04\x05\x06\x07").unwrap();
    check_image(&img, (2, 2), &want);
    let img = read_pnm(Source::new(b"P5 2 2 255\n\x01\x02\x03\x04\x05\x06", 1, 2)).unwrap();
    check_image(&img, (2, 2), &want);
    let img = parse_pnm(*b"P6 1 1 255\n\x01\x02\x03\x04\x05").unwrap();
    check_image(&img, (1, 1), &[rgb(1, 2, 3)]);
    let img = parse_pnm(*b"P3 1 1 255\n1 2 3 4 5").unwrap();
    check_image(&img, (1, 1), &[rgb(1, 2, 3)]);
    let img = parse_pnm(*b"P4 3 3\n\xff\xff\xff\xff\xff\xff").unwrap();
    assert_eq!(img.dims(), (3, 3));
    check_consistent(&img);

    // An error after everything the image needs: reported, or never seen
    let file = b"P5 2 2 255\n\x01\x02\x03\x04\x05\x06";
    let src = Source::new(file, 1, 0).with(15, Ev::Fail(ErrorKind::Other), usize::MAX);
    match read_pnm(src) {
        Err(Error::Io(k)) => assert_eq!(k, ErrorKind::Other),
        Err(e) => panic!("unexpected {e:?}"),
        Ok(img) => check_image(&img, (2, 2), &want),
    }
}

#[test]
fn comment_glued_to_a_number_is_an_error_or_a_comment() {
    for file in [
        &b"P3 1 1 255#c\n1 2 3"[..],
        b"P3 1#w\n1 255\n1 2 3",
        b"P3 1 1 255\n1#r\n2 3",
    ] {
        match parse_pnm(file.iter().copied()) {
            Err(_) => {}
            Ok(img) => check_image(&img, (1, 1), &[rgb(1, 2, 3)]),
        }
    }
    // Comments after whitespace, closed by a line feed, always work; they may
    // contain anything else, including carriage returns and hashes
    let file = b"P3 1 1 # one\r two # three \\\n 255 #\n#\n\n 1 2 3";
    let img = parse_pnm(file.iter().copied()).unwrap();
    check_image(&img, (1, 1), &[rgb(1, 2, 3)]);
}
