#!/bin/bash
# Own mutants must be detected (exit 1), property-preserving rewrites must stay green (exit 0).
cd /verif
prop_of() { case "$1" in *obj*|*p2-*|*q2-*) echo C14;; *) echo C13;; esac; }
for f in selftest/mutants/*.diff; do
  p=$(prop_of $f); out=$(tools/run_against.sh $f $p ${1:-quick}); rc=$(echo "$out" | grep -o 'exit=[0-9]*')
  echo "mutant     $(basename $f .diff) $p $rc $( [ "$rc" = "exit=1" ] && echo ok || echo UNEXPECTED)"
done
for f in selftest/equivalents/*.diff selftest/equivalents/*/patch.diff; do
  p=$(prop_of $f); out=$(tools/run_against.sh $f $p ${1:-quick}); rc=$(echo "$out" | grep -o 'exit=[0-9]*')
  n=$(echo $f | sed 's|selftest/equivalents/||; s|/patch.diff||; s|.diff||')
  echo "equivalent $n $p $rc $( [ "$rc" = "exit=0" ] && echo ok || (echo UNEXPECTED; echo "$out" | grep -E '^violation' | cut -c1-200))"
done
