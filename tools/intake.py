#!/usr/bin/env python3
"""usage: tools/intake.py <agent worktree> <C13|C14> <id prefix, e.g. x1> <origin text> [<dir holding m*/>]

(The m*/ directories must be outside the worktree or are copied out first: the
confirmation step cleans the worktree.)
Takes <worktree>/out/m*/ (patch.diff, demo.rs, notes.md) as written by an independent
sub-agent, confirms each change in that scratch worktree (existing suite passes with it,
demo fails with it, demo passes without it), and only then stores it as
/verif/seeded/<prop>-<prefix>m<k>/ and runs the registered quick check against it
(apply to /repo, check, undo). Prints one line per change."""
import json, os, re, shutil, subprocess, sys

wt, prop, prefix, origin = sys.argv[1:5]
crate = "core" if prop == "C13" else "geom"
outdir = sys.argv[5] if len(sys.argv) > 5 else None
if outdir is None:
    outdir = f"/tmp/intake-{os.path.basename(wt)}"
    shutil.rmtree(outdir, ignore_errors=True)
    shutil.copytree(f"{wt}/out", outdir)
for d in sorted(os.listdir(outdir)):
    src = f"{outdir}/{d}"
    if not os.path.exists(f"{src}/patch.diff"):
        continue
    demo = next((f for f in os.listdir(src) if f.endswith(".rs")), None)
    if demo is None:
        print(d, "NO-DEMO"); continue
    if demo != "demo.rs":
        shutil.copy(f"{src}/{demo}", f"{src}/demo.rs")
    notes = open(f"{src}/notes.md").read() if os.path.exists(f"{src}/notes.md") else ""
    # the demo may belong to the other crate
    c = crate
    if re.search(r"geom/tests/demo", notes) and not re.search(r"core/tests/demo", notes):
        c = "geom"
    if re.search(r"core/tests/demo", notes) and not re.search(r"geom/tests/demo", notes):
        c = "core"
    out = subprocess.run(["/verif/tools/confirm_mutation.sh", src, c, wt], capture_output=True, text=True).stdout.strip()
    m = re.search(r"suite_with_change: (\d+) passed (\d+) failed ; demo_with_change_exit=(\d+) ; demo_without_change_exit=(\d+)", out)
    ok = bool(m) and int(m.group(1)) >= 231 and m.group(2) == "0" and m.group(3) != "0" and m.group(4) == "0"
    if not ok:
        print(d, "NOT-CONFIRMED", out); continue
    sid = f"{prop}-{prefix}{d}"
    dst = f"/verif/seeded/{sid}"
    os.makedirs(dst, exist_ok=True)
    for f in ("patch.diff", "demo.rs", "notes.md"):
        if os.path.exists(f"{src}/{f}"):
            shutil.copy(f"{src}/{f}", f"{dst}/{f}")
    r = subprocess.run(["/verif/tools/run_against.sh", f"{dst}/patch.diff", prop, "quick"], capture_output=True, text=True)
    classes = sorted(set(re.findall(r"^violation oracle=([A-Z]) class=(\S+)", r.stdout, re.M)))
    meta = {
        "property": prop,
        "origin": origin,
        "summary_and_needs": "see notes.md (the author's own account: what the change pretends to be, what it breaks, what it needs in order to manifest, what they ran)",
        "demo": f"copy demo.rs to {c}/tests/demo.rs; cargo test -p retrofire-{c} --features std --offline --test demo",
        "confirmed_by_me": f"tools/confirm_mutation.sh in the scratch worktree: {out}",
        "check_result": {
            "command": f"tools/run_against.sh seeded/{sid}/patch.diff {prop} quick",
            "exit": r.returncode,
            "violation_classes": [f"{o}:{c_}" for o, c_ in classes],
        },
    }
    json.dump(meta, open(f"{dst}/meta.json", "w"), indent=1)
    print(sid, "confirmed;", "check exit", r.returncode, " ".join(meta["check_result"]["violation_classes"])[:300])
