//! Seeded generation of the environment half of a scenario: reader and writer
//! behaviour, and storage faults. Swarm style: every run first draws *which* kinds
//! are enabled at all, then how often they fire.

use crate::rng::Rng;
use crate::seams::*;

const CAPS: [u32; 12] = [1, 2, 3, 7, 16, 64, 512, 4096, 8192, 8192, 65536, 1 << 20];
const CHUNKS: [u16; 12] = [1, 1, 1, 2, 3, 4, 5, 7, 16, 64, 1000, 0];
const BLOCKS: [u32; 7] = [1, 2, 3, 8, 64, 512, 4096];

/// An offset in `0..=len`, biased toward the places where parsers keep state.
pub fn hot_offset(rng: &mut Rng, len: usize, hot: &[usize]) -> usize {
    if len == 0 {
        return 0;
    }
    let r = rng.below(100);
    let o = if r < 45 && !hot.is_empty() {
        let h = *rng.pick(hot) as i64;
        h + rng.range(0, 2) as i64 - 1
    } else if r < 60 {
        len as i64 - rng.small(16) as i64
    } else if r < 70 {
        rng.small(16) as i64
    } else {
        rng.below(len as u64 + 1) as i64
    };
    o.clamp(0, len as i64) as usize
}

fn gen_chunks(rng: &mut Rng) -> Vec<u16> {
    if !rng.chance(7, 10) {
        return vec![];
    }
    if rng.chance(1, 4) {
        // one byte at a time: the most call-boundary-rich schedule
        return vec![1];
    }
    let n = rng.usize(1, 8);
    (0..n).map(|_| *rng.pick(&CHUNKS)).collect()
}

fn gen_eintr(rng: &mut Rng, len: usize) -> Vec<u32> {
    if !rng.chance(1, 2) {
        return vec![];
    }
    let n = rng.small(24.min(len as u64 / 2 + 2)) as usize + 1;
    let mut v = Vec::with_capacity(n + 2);
    while v.len() < n {
        let at = if rng.chance(1, 2) { rng.small(12) } else { rng.below(len as u64 + 8) } as u32;
        v.push(at);
        // runs of consecutive interruptions: mostly up to three, now and then up to seven
        let run = if rng.chance(1, 40) { rng.range(8, 19) } else if rng.chance(1, 8) { rng.range(4, 7) } else { rng.below(4) };
        for k in 1..run {
            v.push(at + k as u32);
        }
    }
    v.sort_unstable();
    v.dedup();
    v
}

pub fn gen_rstack(rng: &mut Rng, len: usize) -> RStack {
    let cap = |rng: &mut Rng| if rng.chance(1, 4) { rng.range(1, 300) as u32 } else { *rng.pick(&CAPS) };
    if rng.chance(1, 10) {
        return RStack::Wrapper;
    }
    match rng.below(10) {
        0 | 1 => RStack::Raw,
        2 => RStack::RawRef,
        3..=7 => RStack::Buf { cap: cap(rng), by_ref: rng.chance(1, 2) },
        8 => RStack::Chain { split: rng.below(len as u64 + 1) as u32 },
        _ => RStack::ChainBuf { split: rng.below(len as u64 + 1) as u32, cap: cap(rng) },
    }
}

/// Benign-only reader behaviour.
pub fn gen_reader_benign(rng: &mut Rng, len: usize) -> ReaderCfg {
    ReaderCfg {
        stack: gen_rstack(rng, len),
        chunks: gen_chunks(rng),
        eintr_at: gen_eintr(rng, len),
        err: None,
        early_eof: None,
        eintr_at_eof: if rng.chance(1, 6) { (if rng.chance(1, 20) { rng.range(8, 19) } else if rng.chance(1, 5) { rng.range(4, 7) } else { rng.range(1, 3) }) as u8 } else { 0 },
        err_after_eof: None,
        open_err: None,
    }
}

/// Adds one destructive stream fault to a reader.
pub fn add_reader_fault(rng: &mut Rng, cfg: &mut ReaderCfg, len: usize, hot: &[usize]) {
    if cfg.stack == RStack::Wrapper && FILE_SEAM && rng.chance(1, 6) {
        cfg.open_err = Some(*rng.pick(&OPEN_ERR_KINDS));
    } else if rng.chance(1, 8) {
        cfg.err_after_eof = Some(*rng.pick(&READ_ERR_KINDS));
    } else if rng.chance(2, 3) {
        let at = if rng.chance(3, 4) {
            At::Byte(hot_offset(rng, len, hot) as u32)
        } else if rng.chance(1, 2) {
            At::Call(rng.small(8) as u32)
        } else {
            At::Call(rng.below(len as u64 + 2) as u32)
        };
        cfg.err = Some(StreamErr { at, kind: *rng.pick(&READ_ERR_KINDS), sticky: rng.chance(1, 2) });
    } else {
        cfg.early_eof = Some(EarlyEof { at_byte: hot_offset(rng, len, hot) as u32, resume: rng.chance(1, 3) });
    }
}

pub fn gen_wstack(rng: &mut Rng) -> WStack {
    let cap = |rng: &mut Rng| if rng.chance(1, 4) { rng.range(1, 300) as u32 } else { *rng.pick(&CAPS) };
    if rng.chance(1, 10) {
        return WStack::Wrapper;
    }
    match rng.below(10) {
        0 | 1 => WStack::Raw { by_ref: true },
        2 => WStack::Raw { by_ref: false },
        3..=5 => WStack::Buf { cap: cap(rng), by_ref: true },
        6 | 7 => WStack::Buf { cap: cap(rng), by_ref: false },
        8 => WStack::Line { by_ref: true },
        _ => WStack::Line { by_ref: false },
    }
}

pub fn gen_writer_benign(rng: &mut Rng, len: usize) -> WriterCfg {
    WriterCfg {
        stack: gen_wstack(rng),
        chunks: gen_chunks(rng),
        eintr_at: gen_eintr(rng, len),
        flush_eintr_at: if rng.chance(1, 4) {
            let n = (if rng.chance(1, 12) { rng.range(8, 19) } else if rng.chance(1, 4) { rng.range(4, 7) } else { rng.range(1, 3) }) as u32;
            (0..n).collect()
        } else {
            vec![]
        },
        err: None,
        flush_err: None,
        create_err: None,
    }
}

pub fn add_writer_fault(rng: &mut Rng, cfg: &mut WriterCfg, len: usize, hot: &[usize]) {
    if cfg.stack == WStack::Wrapper && FILE_SEAM && rng.chance(1, 6) {
        cfg.create_err = Some(*rng.pick(&OPEN_ERR_KINDS));
    } else if rng.chance(4, 5) {
        let at = if rng.chance(3, 4) {
            At::Byte(hot_offset(rng, len, hot) as u32)
        } else if rng.chance(1, 2) {
            At::Call(rng.small(8) as u32)
        } else {
            At::Call(rng.below(len as u64 + 2) as u32)
        };
        cfg.err = Some(StreamErr { at, kind: *rng.pick(&WRITE_ERR_KINDS), sticky: rng.chance(1, 2) });
    } else {
        cfg.flush_err = Some(*rng.pick(&WRITE_ERR_KINDS[..6]));
    }
}

/// One storage fault. `spans` are natural units of the file (lines, rows) as
/// `(start, len)`; block faults sometimes cover exactly one of them.
pub fn gen_disk_fault(rng: &mut Rng, len: usize, hot: &[usize], spans: &[(usize, usize)], after_write: bool) -> DiskFault {
    let (at, blen) = if !spans.is_empty() && rng.chance(1, 3) {
        let (s, l) = *rng.pick(spans);
        (s as u32, l.max(1) as u32)
    } else {
        (hot_offset(rng, len.saturating_sub(1), hot) as u32, *rng.pick(&BLOCKS))
    };
    match rng.below(100) {
        0..=29 => {
            let keep = hot_offset(rng, len, hot) as u32;
            if after_write {
                DiskFault::Crash { keep }
            } else {
                DiskFault::Truncate { len: keep }
            }
        }
        30..=54 => DiskFault::BitFlip { byte: hot_offset(rng, len.saturating_sub(1), hot) as u32, bit: rng.below(8) as u8 },
        55..=64 => DiskFault::ZeroBlock { at, len: blen },
        65..=76 => DiskFault::LostBlock { at, len: blen },
        77..=86 => DiskFault::DupBlock { at, len: blen },
        87..=91 => DiskFault::CopyBlock { from: hot_offset(rng, len.saturating_sub(1), hot) as u32, to: at, len: blen },
        _ => DiskFault::GarbageBlock { at, len: blen.min(64), seed: rng.u64() },
    }
}

pub fn gen_disk_faults(rng: &mut Rng, len: usize, hot: &[usize], spans: &[(usize, usize)], after_write: bool) -> Vec<DiskFault> {
    let n = match rng.below(10) {
        0..=6 => 1,
        7 | 8 => 2,
        _ => 3,
    };
    (0..n).map(|_| gen_disk_fault(rng, len, hot, spans, after_write)).collect()
}

pub fn rstack_name(s: RStack) -> String {
    match s {
        RStack::Raw => "read:raw".into(),
        RStack::RawRef => "read:&mut raw".into(),
        RStack::Buf { cap, by_ref } => format!("read:{}BufReader({})", if by_ref { "&mut " } else { "" }, cap_class(cap)),
        RStack::Chain { .. } => "read:Chain".into(),
        RStack::ChainBuf { cap, .. } => format!("read:&mut BufReader({})<Chain>", cap_class(cap)),
        RStack::Wrapper => "read:path wrapper (load_*) over the File seam".into(),
    }
}

pub fn wstack_name(s: WStack) -> String {
    match s {
        WStack::Raw { by_ref } => format!("write:{}raw", if by_ref { "&mut " } else { "" }),
        WStack::Buf { cap, by_ref } => format!("write:{}BufWriter({})", if by_ref { "&mut " } else { "" }, cap_class(cap)),
        WStack::Line { by_ref } => format!("write:{}LineWriter", if by_ref { "&mut " } else { "" }),
        WStack::Wrapper => "write:path wrapper (save_ppm) over the File seam".into(),
    }
}

fn cap_class(cap: u32) -> &'static str {
    match cap {
        0..=1 => "1",
        2..=7 => "2-7",
        8..=511 => "8-511",
        512..=8191 => "512-8191",
        8192 => "8192",
        _ => ">8192",
    }
}
