//! Batch driver, crash-contained workers, minimisation, replay and evidence.

use std::collections::{BTreeMap, BTreeSet, HashSet};
use std::fs;
use std::io::Write as _;
use std::os::unix::fs::FileExt;
use std::os::unix::process::ExitStatusExt;
use std::path::{Path, PathBuf};
use std::process::{Command, Stdio};
use std::time::Instant;

use serde::{Deserialize, Serialize};
use serde_json::{json, Value};

use crate::core::*;
use crate::rng::{mix, Fnv};
use crate::sweep::SweepBase;
use crate::Property;

const BLOCK: u64 = 1024;
/// Address-space limit for every process that runs code under test (KiB): a decoder that
/// sizes an allocation from an unvalidated header dies here instead of taking the box down.
const ULIMIT_KIB: u64 = 6 * 1024 * 1024;

// ---------------------------------------------------------------------------
// Plan: a batch is a pure function of (property, tier, profile, VERIF_SEED)
// ---------------------------------------------------------------------------

/// First bytes behind which every second byte is tried: magic numbers, comment and item
/// starters, byte-order-mark and other multi-byte introducers.
const TINY_FIRST: [u8; 10] = [b'P', b'#', b'v', b'f', 0xEF, 0xFF, 0xFE, 0xC3, b'\n', b' '];

pub fn tiny_count() -> u64 {
    1 + 256 + TINY_FIRST.len() as u64 * 256
}

pub fn tiny_bytes(k: u64) -> Vec<u8> {
    match k {
        0 => vec![],
        1..=256 => vec![(k - 1) as u8],
        _ => {
            let k = k - 257;
            vec![TINY_FIRST[(k / 256) as usize], (k % 256) as u8]
        }
    }
}

pub struct Plan {
    /// Number of jumbo scenarios, spread evenly over the search jobs `0..search`.
    pub jumbo: u64,
    pub search: u64,
    pub tiny: u64,
    pub bases: Vec<SweepBase>,
    pub offsets: Vec<u64>,
    pub total: u64,
    pub profile_salt: u64,
}

/// (search jobs, sweep base files, jumbo jobs)
fn sizes(tier: &str, profile: &str) -> (u64, u64, u64) {
    match (tier, profile) {
        ("quick", "checked") => (200_000, 10, 48),
        ("quick", _) => (60_000, 4, 16),
        ("thorough", "checked") => (20_000_000, 1000, 1000),
        ("thorough", _) => (7_000_000, 350, 350),
        _ => (2_000, 1, 1),
    }
}

pub fn plan<P: Property>(tier: &str, profile: &str, seed: u64) -> Plan {
    let (search, n_bases, jumbo) = sizes(tier, profile);
    let profile_salt = if profile == "checked" { 0 } else { 1 << 40 };
    let mut bases = Vec::new();
    let mut offsets = Vec::new();
    // tiny files follow the search jobs (checked profile only), then the sweeps
    let tiny = if profile == "checked" && tier != "smoke" { tiny_count() } else { 0 };
    let mut total = search + tiny;
    for b in 0..n_bases {
        let base = P::sweep_base(mix(seed, P::STREAM + 1000, b + profile_salt));
        offsets.push(total);
        total += base.count() as u64;
        bases.push(base);
    }
    Plan { jumbo, search, tiny, bases, offsets, total, profile_salt }
}

impl Plan {
    pub fn job<P: Property>(&self, seed: u64, index: u64) -> (P::Scn, &'static str, Option<String>) {
        if self.jumbo > 0 && index < self.search && index % (self.search / self.jumbo) == 0 {
            // spread evenly over the search range so that no worker gets them all
            P::gen_jumbo(mix(seed, P::STREAM + 2000, index + self.profile_salt))
        } else if index < self.search {
            P::gen(mix(seed, P::STREAM, index + self.profile_salt))
        } else if index < self.search + self.tiny {
            (P::tiny_job(tiny_bytes(index - self.search)), "sweep:tiny-files", None)
        } else {
            let b = match self.offsets.binary_search(&index) {
                Ok(i) => i,
                Err(i) => i - 1,
            };
            let (s, k) = P::sweep_job(&self.bases[b], (index - self.offsets[b]) as usize);
            (s, k, None)
        }
    }
}

// ---------------------------------------------------------------------------
// Worker
// ---------------------------------------------------------------------------

#[derive(Serialize, Deserialize, Clone, Debug)]
pub struct VioRec {
    pub index: u64,
    /// First job the worker process had run when it reached `index`: the history that
    /// process had behind it, should the violation turn out to depend on earlier calls.
    #[serde(default)]
    pub range_lo: u64,
    pub kind: String,
    pub profile: String,
    pub scenario: Value,
    pub violations: Vec<Violation>,
}

#[derive(Serialize, Deserialize, Clone, Debug)]
pub struct Sample {
    pub index: u64,
    pub kind: String,
    pub scenario: Value,
    pub fired: BTreeMap<String, u64>,
    pub oracles_applied: Vec<String>,
    pub event_log_hash: String,
}

#[derive(Serialize, Deserialize, Default)]
pub struct WorkerOut {
    pub stats: Stats,
    pub hashes: Vec<u64>,
    pub block_digests: Vec<(u64, u64)>,
    pub violations: Vec<VioRec>,
    pub vio_counts: BTreeMap<String, u64>,
    pub samples: Vec<Sample>,
    pub self_check: Vec<String>,
}

fn opt<'a>(args: &'a [String], name: &str) -> Option<&'a str> {
    args.iter().position(|a| a == name).and_then(|i| args.get(i + 1)).map(String::as_str)
}

/// `worker <prop> <tier> <seed> <profile> <lo> <hi> <outfile> [--skip a,b,...]`
pub fn worker<P: Property>(args: &[String]) -> i32 {
    let tier = &args[0];
    let seed: u64 = args[1].parse().unwrap();
    let profile = &args[2];
    let lo: u64 = args[3].parse().unwrap();
    let hi: u64 = args[4].parse().unwrap();
    let out = PathBuf::from(&args[5]);
    let skip: BTreeSet<u64> = opt(args, "--skip").map(|s| s.split(',').filter_map(|x| x.parse().ok()).collect()).unwrap_or_default();
    let plan = plan::<P>(tier, profile, seed);
    let journal = fs::File::create(out.with_extension("journal")).unwrap();

    let mut w = WorkerOut::default();
    let mut hashes: HashSet<u64> = HashSet::new();
    let mut per_key_kept: BTreeMap<String, u32> = BTreeMap::new();
    let mut digest = Fnv::default();
    for index in lo..hi {
        if index % BLOCK == 0 {
            digest = Fnv::default();
        }
        if !skip.contains(&index) {
            journal.write_all_at(format!("{index:020}").as_bytes(), 0).unwrap();
            let (scn, kind, sc) = plan.job::<P>(seed, index);
            if let Some(e) = sc {
                if w.self_check.len() < 10 {
                    w.self_check.push(format!("job {index}: {e}"));
                }
            }
            let rr = P::run(&scn, false);
            w.stats.absorb(&rr, kind, &P::stacks(&scn));
            digest.u64(index);
            digest.u64(rr.log_hash);
            let nontrivial = rr.ledger.any_fault_fired();
            if nontrivial {
                hashes.insert(rr.log_hash);
                let scn_json = if w.samples.len() < 3 { serde_json::to_value(&scn).ok() } else { None };
                // samples are for reading: skip scenarios whose text would fill pages
                if let Some(sj) = scn_json.filter(|v| v.to_string().len() <= 3000) {
                    w.samples.push(Sample {
                        index,
                        kind: kind.to_string(),
                        scenario: sj,
                        fired: rr.ledger.to_map(),
                        oracles_applied: rr.oracles.keys().map(|k| k.to_string()).collect(),
                        event_log_hash: format!("{:016x}", rr.log_hash),
                    });
                }
            }
            if !rr.violations.is_empty() {
                let mut keep = false;
                for v in &rr.violations {
                    digest.bytes(v.key().as_bytes());
                    *w.vio_counts.entry(v.key()).or_default() += 1;
                    let k = per_key_kept.entry(v.key()).or_default();
                    if *k < 2 {
                        *k += 1;
                        keep = true;
                    }
                }
                if keep {
                    w.violations.push(VioRec {
                        index,
                        range_lo: lo,
                        kind: kind.to_string(),
                        profile: profile.clone(),
                        scenario: serde_json::to_value(&scn).unwrap(),
                        violations: rr.violations.clone(),
                    });
                }
            }
        }
        if (index + 1) % BLOCK == 0 || index + 1 == hi {
            w.block_digests.push((index / BLOCK, digest.0));
        }
    }
    w.hashes = hashes.into_iter().collect();
    w.hashes.sort_unstable();
    let tmp = out.with_extension("tmp");
    fs::write(&tmp, serde_json::to_vec(&w).unwrap()).unwrap();
    fs::rename(&tmp, &out).unwrap();
    scratch_cleanup();
    0
}

// ---------------------------------------------------------------------------
// Spawning under a memory limit
// ---------------------------------------------------------------------------

fn limited(bin: &Path, args: &[String]) -> Command {
    let mut c = Command::new("sh");
    c.arg("-c").arg(format!("ulimit -v {ULIMIT_KIB}; ulimit -c 0; exec \"$0\" \"$@\"")).arg(bin).args(args);
    c
}

fn death_reason(st: &std::process::ExitStatus) -> String {
    match (st.signal(), st.code()) {
        (Some(s), _) => format!("signal {s}"),
        // sh reports a child killed by signal N as 128+N when exec was not possible; also
        // Rust's abort on allocation failure is SIGABRT (134)
        (None, Some(c)) if c > 128 => format!("signal {}", c - 128),
        (None, Some(c)) => format!("exit code {c}"),
        _ => "unknown".into(),
    }
}

struct Range {
    lo: u64,
    hi: u64,
    #[allow(dead_code)]
    skip: Vec<u64>,
    out: PathBuf,
}

/// Result of one profile's batch: worker outputs, one record per process death, and the
/// number of jobs abandoned because processes kept dying.
struct ProfileRun {
    outs: Vec<WorkerOut>,
    deaths: Vec<VioRec>,
    abandoned: u64,
}

/// How many process deaths are investigated per profile before the remainder of a dying
/// range is abandoned (the batch is already a failed one by then).
const MAX_DEATHS: usize = 6;

fn run_profile<P: Property>(
    bin: &Path,
    profile: &str,
    tier: &str,
    seed: u64,
    workers: u64,
    work: &Path,
    plan: &Plan,
) -> Result<ProfileRun, String> {
    let blocks = plan.total.div_ceil(BLOCK);
    let n = workers.min(blocks).max(1);
    let mut next_id = 0u64;
    let mut mk = |lo: u64, hi: u64| {
        next_id += 1;
        Range { lo, hi, skip: vec![], out: work.join(format!("{}-{profile}-{}.json", P::ID, next_id)) }
    };
    let mut pending: Vec<Range> = (0..n)
        .map(|i| mk((blocks * i / n) * BLOCK, ((blocks * (i + 1) / n) * BLOCK).min(plan.total)))
        .filter(|r| r.lo < r.hi)
        .collect();
    let mut run = ProfileRun { outs: vec![], deaths: vec![], abandoned: 0 };
    while !pending.is_empty() {
        let mut children = Vec::new();
        for r in pending.drain(..) {
            let _ = fs::remove_file(&r.out);
            let a: Vec<String> = vec![
                "worker".into(),
                P::ID.into(),
                tier.into(),
                seed.to_string(),
                profile.into(),
                r.lo.to_string(),
                r.hi.to_string(),
                r.out.to_string_lossy().into_owned(),
            ];
            let child = limited(bin, &a).stdout(Stdio::null()).stderr(Stdio::piped()).spawn().map_err(|e| format!("spawn worker: {e}"))?;
            children.push((r, child));
        }
        for (r, child) in children {
            let o = child.wait_with_output().map_err(|e| format!("wait worker: {e}"))?;
            if o.status.success() && r.out.exists() {
                let w: WorkerOut = serde_json::from_slice(&fs::read(&r.out).map_err(|e| e.to_string())?).map_err(|e| format!("worker output {}: {e}", r.out.display()))?;
                run.outs.push(w);
                continue;
            }
            // the process running real code died: find the job it was on
            let j = fs::read_to_string(r.out.with_extension("journal")).unwrap_or_default();
            let Ok(index) = j.trim().parse::<u64>() else {
                return Err(format!(
                    "worker for {}..{} failed before its first job ({}): {}",
                    r.lo,
                    r.hi,
                    death_reason(&o.status),
                    String::from_utf8_lossy(&o.stderr)
                ));
            };
            let stderr = String::from_utf8_lossy(&o.stderr);
            if o.status.code() == Some(101) {
                // Panics of the code under test are caught and judged; an uncaught one is
                // the harness's own (it runs with overflow checks on): never a verdict.
                return Err(format!("the harness itself panicked on job {index} of {} (exit code 101): {}", P::ID, truncate(stderr.trim(), 300)));
            }
            let (scn, kind, _) = plan.job::<P>(seed, index);
            run.deaths.push(VioRec {
                index,
                range_lo: index,
                kind: kind.to_string(),
                profile: profile.to_string(),
                scenario: serde_json::to_value(&scn).unwrap(),
                violations: vec![Violation::new(
                    "T",
                    format!("process-death:{}", death_reason(&o.status)),
                    format!("the process running the scenario died ({}); stderr: {}", death_reason(&o.status), truncate(stderr.trim(), 300)),
                )],
            });
            // the part before the fatal job completes (it just did); the part after it is
            // explored separately — until too many processes have died
            if r.lo < index {
                pending.push(mk(r.lo, index));
            }
            if index + 1 < r.hi {
                if run.deaths.len() < MAX_DEATHS {
                    pending.push(mk(index + 1, r.hi));
                } else {
                    run.abandoned += r.hi - index - 1;
                }
            }
        }
    }
    Ok(run)
}

// ---------------------------------------------------------------------------
// Known findings
// ---------------------------------------------------------------------------

#[derive(Deserialize, Clone, Debug)]
pub struct Finding {
    pub id: String,
    pub property: String,
    /// "open" findings are reported as KNOWN-FINDING; "fixed" entries suppress nothing.
    pub status: String,
    #[serde(default)]
    pub oracle: Option<String>,
    #[serde(default)]
    pub class_contains: Option<String>,
    #[serde(default)]
    pub detail_contains: Option<String>,
    pub what: String,
}

#[derive(Deserialize, Default)]
struct FindingsFile {
    findings: Vec<Finding>,
}

fn load_findings(root: &Path) -> Result<Vec<Finding>, String> {
    let p = root.join("known_findings.json");
    if !p.exists() {
        return Ok(vec![]);
    }
    let f: FindingsFile = serde_json::from_slice(&fs::read(&p).map_err(|e| e.to_string())?).map_err(|e| format!("{}: {e}", p.display()))?;
    Ok(f.findings)
}

fn matches_finding(f: &Finding, prop: &str, v: &Violation) -> bool {
    f.status == "open"
        && f.property == prop
        && f.oracle.as_ref().map_or(true, |o| *o == v.oracle)
        && f.class_contains.as_ref().map_or(true, |c| v.class.contains(c.as_str()))
        && f.detail_contains.as_ref().map_or(true, |d| v.detail.contains(d.as_str()))
}

// ---------------------------------------------------------------------------
// Minimisation (runs in its own limited process: `sim minimise <prop> <in> <out>`)
// ---------------------------------------------------------------------------

#[derive(Serialize, Deserialize)]
struct MinJob {
    scenario: Value,
    key: String,
    /// Enough to regenerate the jobs the worker had run before this one.
    tier: String,
    seed: u64,
    profile: String,
    range_lo: u64,
    index: u64,
}

/// A history to run in a fresh process: `prefix` first, then `scenario`; does the last
/// step show the violation `key`?
#[derive(Serialize, Deserialize)]
struct HistoryTrial {
    prefix: Vec<Value>,
    scenario: Value,
    key: String,
}

#[derive(Serialize, Deserialize)]
struct MinOut {
    scenario: Value,
    /// Earlier operations (scenarios) the violation needs, in order; empty when the
    /// scenario fails on its own.
    #[serde(default)]
    history: Vec<Value>,
    #[serde(default)]
    history_note: String,
    evals: u64,
    accepted: u64,
}

pub fn minimise<P: Property>(args: &[String]) -> i32 {
    let job: MinJob = serde_json::from_slice(&fs::read(&args[0]).unwrap()).unwrap();
    let mut cur: P::Scn = serde_json::from_value(job.scenario.clone()).unwrap();
    let has = |s: &P::Scn| P::run(s, false).violations.iter().any(|v| v.key() == job.key);
    let (mut evals, mut accepted) = (1u64, 0u64);
    let mut history: Vec<Value> = vec![];
    let mut history_note = String::new();
    if has(&cur) {
        'outer: loop {
            for cand in P::shrink(&cur) {
                if evals >= 6000 {
                    break 'outer;
                }
                evals += 1;
                if has(&cand) {
                    cur = cand;
                    accepted += 1;
                    continue 'outer;
                }
            }
            break;
        }
    } else if job.index > job.range_lo {
        // On its own, in this fresh process, the scenario is fine: the violation needs
        // something an earlier call left behind. Find which earlier operations.
        let (h, note, trials) = minimise_history::<P>(&job, Path::new(&args[0]));
        history = h;
        history_note = note;
        evals += trials;
    } else {
        history_note = "the scenario does not fail on its own and there is no earlier job to blame".into();
    }
    let out = MinOut { scenario: serde_json::to_value(&cur).unwrap(), history, history_note, evals, accepted };
    fs::write(&args[1], serde_json::to_vec(&out).unwrap()).unwrap();
    scratch_cleanup();
    0
}

/// `history-run <prop> <file>`: runs a `HistoryTrial` in this (fresh) process; exit 0 if the
/// last step shows the violation, 1 if not.
pub fn history_run<P: Property>(args: &[String]) -> i32 {
    let t: HistoryTrial = match fs::read(&args[0]).map_err(|e| e.to_string()).and_then(|b| serde_json::from_slice(&b).map_err(|e| e.to_string())) {
        Ok(t) => t,
        Err(_) => return 2,
    };
    for v in t.prefix {
        if let Ok(s) = serde_json::from_value::<P::Scn>(v) {
            let _ = P::run(&s, false);
        }
    }
    let Ok(s) = serde_json::from_value::<P::Scn>(t.scenario) else { return 2 };
    let hit = P::run(&s, false).violations.iter().any(|v| v.key() == t.key);
    scratch_cleanup();
    if hit {
        0
    } else {
        1
    }
}

/// Delta debugging over the jobs the worker ran before the failing one. Every trial runs
/// in a fresh child process, because the state in question lives in the process.
fn minimise_history<P: Property>(job: &MinJob, scratch: &Path) -> (Vec<Value>, String, u64) {
    let me = std::env::current_exe().unwrap();
    let plan = plan::<P>(&job.tier, &job.profile, job.seed);
    let lo = job.range_lo.max(job.index.saturating_sub(40_000));
    let prefix: Vec<Value> = (lo..job.index).map(|i| serde_json::to_value(plan.job::<P>(job.seed, i).0).unwrap()).collect();
    let file = scratch.with_extension("history-trial.json");
    let trials = std::cell::Cell::new(0u64);
    let t0 = Instant::now();
    let fails = |p: &[Value]| -> bool {
        trials.set(trials.get() + 1);
        let t = HistoryTrial { prefix: p.to_vec(), scenario: job.scenario.clone(), key: job.key.clone() };
        if fs::write(&file, serde_json::to_vec(&t).unwrap()).is_err() {
            return false;
        }
        limited(&me, &["history-run".into(), P::ID.into(), file.to_string_lossy().into_owned()])
            .stdout(Stdio::null())
            .stderr(Stdio::null())
            .status()
            .map_or(false, |s| s.code() == Some(0))
    };
    // most leaks come from the calls just before: grow a suffix until it fails
    let mut cur: Vec<Value> = vec![];
    let mut len = 1usize;
    let mut found = false;
    while len <= prefix.len() {
        let suf = &prefix[prefix.len() - len..];
        if fails(suf) {
            cur = suf.to_vec();
            found = true;
            break;
        }
        if len == prefix.len() {
            break;
        }
        len = (len * 4).min(prefix.len());
    }
    if !found {
        let _ = fs::remove_file(&file);
        return (vec![], format!("not reproduced even with the {} jobs the worker had run before it", prefix.len()), trials.get());
    }
    // ddmin: remove chunks while the last step still fails
    let mut n = 2usize;
    while cur.len() >= 2 && trials.get() < 200 && t0.elapsed().as_secs() < 150 {
        let chunk = cur.len().div_ceil(n);
        let mut reduced = false;
        let mut i = 0;
        while i < cur.len() {
            let mut cand = cur[..i].to_vec();
            cand.extend_from_slice(&cur[(i + chunk).min(cur.len())..]);
            if !cand.is_empty() && fails(&cand) {
                cur = cand;
                n = (n - 1).max(2);
                reduced = true;
                break;
            }
            i += chunk;
        }
        if !reduced {
            if chunk == 1 {
                break;
            }
            n = (n * 2).min(cur.len());
        }
    }
    let _ = fs::remove_file(&file);
    let note = format!("the scenario fails only after {} earlier operation(s) in the same process (from {} candidates)", cur.len(), prefix.len());
    (cur, note, trials.get())
}

// ---------------------------------------------------------------------------
// Replay
// ---------------------------------------------------------------------------

#[derive(Serialize, Deserialize)]
struct ReplayFile {
    property: String,
    seed: u64,
    tier: String,
    index: u64,
    job_kind: String,
    profile: String,
    violation: Violation,
    /// Earlier operations, executed first in the same process, for violations that need a
    /// history (state left behind by earlier calls). Usually empty.
    #[serde(default)]
    history: Vec<Value>,
    /// The minimised schedule-and-fault trace: executing it needs no PRNG.
    scenario: Value,
    scenario_as_found: Value,
    minimise: Value,
    ledger: BTreeMap<String, u64>,
    notes: BTreeMap<String, String>,
    events: Vec<crate::seams::Event>,
    replay_cmd: String,
}

#[derive(Serialize, Deserialize)]
struct ChildOut {
    violations: Vec<Violation>,
    ledger: BTreeMap<String, u64>,
    notes: BTreeMap<String, String>,
    events: Vec<crate::seams::Event>,
    log_hash: u64,
}

pub fn replay_child(args: &[String]) -> i32 {
    let rf: ReplayFile = match fs::read(&args[0]).map_err(|e| e.to_string()).and_then(|b| serde_json::from_slice(&b).map_err(|e| e.to_string())) {
        Ok(r) => r,
        Err(e) => {
            eprintln!("cannot read replay file: {e}");
            return 2;
        }
    };
    fn go<P: Property>(history: Vec<Value>, v: Value) -> Result<RunResult, String> {
        for h in history {
            let s: P::Scn = serde_json::from_value(h).map_err(|e| e.to_string())?;
            let _ = P::run(&s, false);
        }
        let s: P::Scn = serde_json::from_value(v).map_err(|e| e.to_string())?;
        Ok(P::run(&s, true))
    }
    let rr = match rf.property.as_str() {
        "C13" => go::<crate::C13>(rf.history, rf.scenario),
        "C14" => go::<crate::C14>(rf.history, rf.scenario),
        p => Err(format!("unknown property {p}")),
    };
    scratch_cleanup();
    match rr {
        Ok(rr) => {
            let o = ChildOut { violations: rr.violations, ledger: rr.ledger.to_map(), notes: rr.notes, events: rr.events, log_hash: rr.log_hash };
            println!("{}", serde_json::to_string(&o).unwrap());
            0
        }
        Err(e) => {
            eprintln!("{e}");
            2
        }
    }
}

fn run_child(bin: &Path, file: &Path) -> Result<Result<ChildOut, String>, String> {
    let o = limited(bin, &["replay-child".into(), file.to_string_lossy().into_owned()]).output().map_err(|e| e.to_string())?;
    if o.status.success() {
        let c: ChildOut = serde_json::from_slice(&o.stdout).map_err(|e| format!("child output: {e}"))?;
        Ok(Ok(c))
    } else if o.status.code() == Some(2) {
        Err(String::from_utf8_lossy(&o.stderr).into_owned())
    } else {
        Ok(Err(death_reason(&o.status)))
    }
}

pub fn replay(args: &[String]) -> i32 {
    let Some(file) = args.first() else { return 2 };
    let file = PathBuf::from(file);
    let rf: ReplayFile = match fs::read(&file).map_err(|e| e.to_string()).and_then(|b| serde_json::from_slice(&b).map_err(|e| e.to_string())) {
        Ok(r) => r,
        Err(e) => {
            println!("ERROR cannot read replay file {}: {e}", file.display());
            return 2;
        }
    };
    let me = std::env::current_exe().unwrap();
    let bin = if rf.profile == "release" {
        match opt(args, "--release-bin") {
            Some(p) => PathBuf::from(p),
            None => {
                println!("ERROR replay of a release-profile violation needs --release-bin");
                return 2;
            }
        }
    } else {
        me
    };
    match run_child(&bin, &file) {
        Err(e) => {
            println!("ERROR replay harness failure: {e}");
            2
        }
        Ok(Err(death)) => {
            if rf.violation.class.starts_with("process-death") {
                println!("replayed: the process died again ({death})");
                println!("VIOLATION property={} replay={}", rf.property, file.display());
                1
            } else {
                println!("REPLAY-MISMATCH expected {} but the process died ({death})", rf.violation.key());
                2
            }
        }
        Ok(Ok(c)) => {
            if let Some(v) = c.violations.iter().find(|v| v.key() == rf.violation.key()) {
                println!("replayed {} events; oracle {} [{}]: {}", c.events.len(), v.oracle, v.class, v.detail);
                if c.events != rf.events {
                    println!("REPLAY-MISMATCH same violation but a different event log (harness nondeterminism)");
                    return 2;
                }
                println!("VIOLATION property={} replay={}", rf.property, file.display());
                1
            } else {
                println!(
                    "REPLAY-MISMATCH expected {} ; this tree gives {:?}",
                    rf.violation.key(),
                    c.violations.iter().map(|v| v.key()).collect::<Vec<_>>()
                );
                2
            }
        }
    }
}

// ---------------------------------------------------------------------------
// The batch
// ---------------------------------------------------------------------------

pub fn run<P: Property>(args: &[String]) -> i32 {
    match run_inner::<P>(args) {
        Ok(c) => c,
        Err(e) => {
            println!("ERROR harness failure (not a verdict): {e}");
            2
        }
    }
}

fn run_inner<P: Property>(args: &[String]) -> Result<i32, String> {
    let t0 = Instant::now();
    let tier = args.first().map(String::as_str).or(std::env::var("VERIF_TIER").ok().as_deref().map(|_| "")).unwrap_or("quick").to_string();
    let tier = if tier.is_empty() { std::env::var("VERIF_TIER").unwrap_or("quick".into()) } else { tier };
    if tier != "quick" && tier != "thorough" && tier != "smoke" {
        return Err(format!("unknown tier {tier}"));
    }
    let seed: u64 = match opt(args, "--seed").map(str::to_string).or(std::env::var("VERIF_SEED").ok()) {
        Some(s) => s.trim().parse().map_err(|_| format!("VERIF_SEED is not an integer: {s}"))?,
        None => 1,
    };
    let workers: u64 = opt(args, "--workers")
        .map(str::to_string)
        .or(std::env::var("VERIF_WORKERS").ok())
        .and_then(|s| s.parse().ok())
        .unwrap_or_else(|| std::thread::available_parallelism().map(|n| n.get() as u64).unwrap_or(4));
    let root = PathBuf::from(opt(args, "--out").unwrap_or("/verif"));
    let work = root.join("work").join(format!("{}-{}", P::ID, std::process::id()));
    fs::create_dir_all(&work).map_err(|e| e.to_string())?;
    fs::create_dir_all(root.join("evidence")).map_err(|e| e.to_string())?;
    fs::create_dir_all(root.join("replays")).map_err(|e| e.to_string())?;
    let me = std::env::current_exe().map_err(|e| e.to_string())?;
    let mut profiles: Vec<(&str, PathBuf)> = vec![("checked", me.clone())];
    if let Some(r) = opt(args, "--release-bin") {
        profiles.push(("release", PathBuf::from(r)));
    }
    println!("property={} tier={tier} VERIF_SEED={seed} workers={workers} profiles={:?}", P::ID, profiles.iter().map(|p| p.0).collect::<Vec<_>>());

    let findings = load_findings(&root)?;
    let mut stats = Stats::default();
    let mut per_profile = BTreeMap::new();
    let mut hashes: HashSet<u64> = HashSet::new();
    let mut recs: Vec<VioRec> = Vec::new();
    let mut vio_counts: BTreeMap<String, u64> = BTreeMap::new();
    let mut samples: Vec<Sample> = Vec::new();
    let mut self_check: Vec<String> = Vec::new();
    let mut digest = Fnv::default();
    let mut abandoned_jobs = 0u64;
    let mut sweeps_desc = Vec::new();
    for (profile, bin) in &profiles {
        let plan = plan::<P>(&tier, profile, seed);
        sweeps_desc.push(json!({"profile": profile, "search_jobs": plan.search, "sweep_base_files": plan.bases.len(),
            "sweep_jobs": plan.total - plan.search, "base_file_bytes": plan.bases.iter().map(|b| b.bytes.len()).collect::<Vec<_>>() }));
        let ProfileRun { outs, deaths, abandoned } = run_profile::<P>(bin, profile, &tier, seed, workers, &work, &plan)?;
        abandoned_jobs += abandoned;
        let mut pstats = Stats::default();
        let mut blocks: Vec<(u64, u64)> = Vec::new();
        for o in outs {
            pstats.merge(&o.stats);
            hashes.extend(o.hashes);
            recs.extend(o.violations);
            for (k, v) in o.vio_counts {
                *vio_counts.entry(k).or_default() += v;
            }
            samples.extend(o.samples);
            self_check.extend(o.self_check);
            blocks.extend(o.block_digests);
        }
        for d in deaths {
            *vio_counts.entry(d.violations[0].key()).or_default() += 1;
            pstats.violations += 1;
            recs.push(d);
        }
        blocks.sort_unstable();
        digest.bytes(profile.as_bytes());
        for (b, d) in blocks {
            digest.u64(b);
            digest.u64(d);
        }
        stats.merge(&pstats);
        per_profile.insert(profile.to_string(), json!({"runs": pstats.runs, "violations": pstats.violations, "steps": pstats.steps}));
    }
    if !self_check.is_empty() {
        return Err(format!("harness self-check failed (reference model disagrees with the harness writer): {:?}", &self_check[..self_check.len().min(3)]));
    }
    samples.sort_by_key(|s| s.index);
    samples.truncate(4);

    // ---- violations: one report per distinct failure class, lowest job index first ----
    recs.sort_by(|a, b| (a.profile.as_str(), a.index).cmp(&(b.profile.as_str(), b.index)));
    // among the kept instances of a class, start from the smallest scenario (ties: lowest
    // profile/index) — deterministic, and the cheapest to minimise
    let mut by_key: BTreeMap<String, (VioRec, Violation)> = BTreeMap::new();
    let mut size_of: BTreeMap<String, usize> = BTreeMap::new();
    for r in &recs {
        let size = r.scenario.to_string().len();
        for v in &r.violations {
            let k = v.key();
            if size_of.get(&k).map_or(true, |&s| size < s) {
                size_of.insert(k.clone(), size);
                by_key.insert(k, (r.clone(), v.clone()));
            }
        }
    }
    let mut exit = 0;
    let mut known_lines = BTreeMap::new();
    let mut reported = Vec::new();
    let mut new_classes = 0;
    for (key, (rec, v)) in &by_key {
        if let Some(f) = findings.iter().find(|f| matches_finding(f, P::ID, v)) {
            let e = known_lines.entry(f.id.clone()).or_insert((f.what.clone(), 0u64));
            e.1 += vio_counts.get(key).copied().unwrap_or(1);
            continue;
        }
        exit = 1;
        new_classes += 1;
        if new_classes > 8 {
            println!("(further violation class not minimised: {key} x{})", vio_counts.get(key).copied().unwrap_or(1));
            continue;
        }
        let bin = &profiles.iter().find(|p| p.0 == rec.profile).unwrap().1;
        // minimise in a limited child process
        let (min_scn, min_history, min_info) = if v.class.starts_with("process-death") {
            (rec.scenario.clone(), vec![], json!({"skipped": "process death: scenario kept as found"}))
        } else {
            let inp = work.join("min-in.json");
            let outp = work.join("min-out.json");
            let _ = fs::remove_file(&outp);
            let mj = MinJob { scenario: rec.scenario.clone(), key: key.clone(), tier: tier.clone(), seed, profile: rec.profile.clone(), range_lo: rec.range_lo, index: rec.index };
            fs::write(&inp, serde_json::to_vec(&mj).unwrap()).map_err(|e| e.to_string())?;
            let st = limited(bin, &["minimise".into(), P::ID.into(), inp.to_string_lossy().into_owned(), outp.to_string_lossy().into_owned()])
                .stdout(Stdio::null())
                .stderr(Stdio::null())
                .status()
                .map_err(|e| e.to_string())?;
            match (st.success(), fs::read(&outp)) {
                (true, Ok(b)) => {
                    let m: MinOut = serde_json::from_slice(&b).map_err(|e| e.to_string())?;
                    let info = json!({"evaluations": m.evals, "accepted_steps": m.accepted, "history_steps": m.history.len(), "history_note": m.history_note});
                    (m.scenario, m.history, info)
                }
                _ => (rec.scenario.clone(), vec![], json!({"skipped": format!("minimiser died ({})", death_reason(&st))})),
            }
        };
        let file = root.join("replays").join(format!("{}-{}-{}-{}.json", P::ID, seed, rec.index, sanitize(key)));
        let replay_cmd = format!("./check {} --replay {}", P::ID, file.display());
        let mut rf = ReplayFile {
            property: P::ID.into(),
            seed,
            tier: tier.clone(),
            index: rec.index,
            job_kind: rec.kind.clone(),
            profile: rec.profile.clone(),
            violation: v.clone(),
            history: min_history,
            scenario: min_scn,
            scenario_as_found: rec.scenario.clone(),
            minimise: min_info,
            ledger: BTreeMap::new(),
            notes: BTreeMap::new(),
            events: vec![],
            replay_cmd,
        };
        fs::write(&file, serde_json::to_vec_pretty(&rf).unwrap()).map_err(|e| e.to_string())?;
        // record what the minimised scenario does, from a fresh process
        if !v.class.starts_with("process-death") {
            if let Ok(Ok(c)) = run_child(bin, &file) {
                if let Some(v2) = c.violations.iter().find(|x| x.key() == *key) {
                    rf.violation = v2.clone();
                }
                rf.ledger = c.ledger;
                rf.notes = c.notes;
                rf.events = c.events;
                fs::write(&file, serde_json::to_vec_pretty(&rf).unwrap()).map_err(|e| e.to_string())?;
            }
        }
        println!(
            "violation oracle={} class={} profile={} job={} ({}) occurrences={}\n  {}",
            rf.violation.oracle,
            rf.violation.class,
            rec.profile,
            rec.index,
            rec.kind,
            vio_counts.get(key).copied().unwrap_or(1),
            rf.violation.detail
        );
        println!("VIOLATION property={} replay={}", P::ID, file.display());
        reported.push(json!({"oracle": rf.violation.oracle, "class": rf.violation.class, "profile": rec.profile, "job": rec.index,
            "occurrences": vio_counts.get(key).copied().unwrap_or(1), "replay": file.display().to_string()}));
    }
    for (id, (what, n)) in &known_lines {
        println!("KNOWN-FINDING: property={} {} [{}; {} occurrences in this batch]", P::ID, what, id, n);
    }

    // ---- evidence -----------------------------------------------------------------------
    let wall = t0.elapsed().as_secs_f64();
    let per_hour = |n: u64| (n as f64 / wall.max(1e-9) * 3600.0).round() as u64;
    let zero_probes: Vec<&str> = expected_probes::<P>().into_iter().filter(|p| !stats.probes.contains_key(*p)).collect();
    let evidence = json!({
        "property_id": P::ID,
        "tier": if tier == "thorough" { "thorough" } else { "quick" },
        "seed": seed,
        "level": "exploration",
        "coverage": {
            "evaluations": stats.runs,
            "distinct_nontrivial": hashes.len(),
            "rule": P::rule(),
            "samples": samples,
            "exhaustive": false,
            "simulated_runs": stats.runs,
            "runs_per_hour": per_hour(stats.runs),
            "seeds_per_hour": per_hour(stats.runs),
            "simulated_time": {"unit": "I/O calls at the seams (the only clock on these paths; there are no timers to fast-forward)", "steps": stats.steps},
            "faults_fired": stats.fired,
            "runs_benign_only": stats.runs_benign_only,
            "runs_destructive": stats.runs_destructive,
            "runs_nontrivial": stats.runs_nontrivial,
            "oracles_applied_passed": stats.oracles,
            "oracles_applied_passed_benign_only_runs": stats.oracles_benign_only,
            "oracles_applied_passed_destructive_runs": stats.oracles_destructive,
            "reach_probes": stats.probes,
            "reach_probes_at_zero": zero_probes,
            "stacks": stats.stacks,
            "job_kinds": stats.jobs,
            "plan": sweeps_desc,
            "build_profiles": per_profile,
            "components_real": P::real_components(),
            "components_stub": P::stub_components(),
            "components_not_run": P::not_run(),
            "batch_digest": format!("{:016x}", digest.0),
            "violation_classes": reported,
            "known_findings_seen": known_lines.iter().map(|(k, v)| json!({"id": k, "occurrences": v.1})).collect::<Vec<_>>(),
            "workers": workers,
            "file_seam_hook": if crate::seams::FILE_SEAM { "on: path wrappers run under simulation (wrapper stacks)" } else { "OFF: the tree under test did not compile with --cfg retrofire_verif; wrapper stacks fell back to the wrappers' compositions over the stubs" },
            "jobs_abandoned_after_repeated_process_deaths": abandoned_jobs,
        },
        "assumptions": [
            "std::io adapter types and core's decimal<->float conversion are correct (trusted base)",
            "the reference decoder is conservative: it accepts only inside the grammar the property spells out and otherwise leaves only the totality and shape oracles on",
            if crate::seams::FILE_SEAM { "std::fs::File is replaced by the File seam's stand-in in wrapper-stack runs (open/create can fail, reads and writes go to the simulated source/sink); the real std::fs::File is exercised only fault-free (oracle W)" } else { "File::open/File::create are not exercised; the wrappers' compositions are" },
            "sampling, not enumeration: a clean batch is evidence, not proof"
        ],
        "wall_s": (wall * 1000.0).round() / 1000.0,
        "violations": stats.violations,
    });
    let ev = root.join("evidence").join(format!("{}.json", P::ID));
    let tmp = ev.with_extension("tmp");
    {
        let mut f = fs::File::create(&tmp).map_err(|e| e.to_string())?;
        f.write_all(&serde_json::to_vec_pretty(&evidence).unwrap()).map_err(|e| e.to_string())?;
    }
    fs::rename(&tmp, &ev).map_err(|e| e.to_string())?;
    let _ = fs::remove_dir_all(&work);
    println!(
        "runs={} distinct_nontrivial={} steps={} violations={} classes={} known={} digest={:016x} wall={:.1}s evidence={}",
        stats.runs,
        hashes.len(),
        stats.steps,
        stats.violations,
        by_key.len(),
        known_lines.len(),
        digest.0,
        wall,
        ev.display()
    );
    if !zero_probes.is_empty() {
        println!("note: reach probes at zero in this batch: {zero_probes:?}");
    }
    Ok(exit)
}

fn sanitize(s: &str) -> String {
    let t: String = s.chars().map(|c| if c.is_ascii_alphanumeric() { c } else { '_' }).collect();
    t.chars().take(60).collect()
}

fn expected_probes<P: Property>() -> Vec<&'static str> {
    let mut v: Vec<&'static str> = vec![
        "read error fired",
        "EINTR immediately before EOF",
        "BufReader refilled >= 2x",
        "decoder returned Err",
        "damaged file still well-formed (X applied after storage fault)",
        "early EOF: streamed result compared with parse of the delivered prefix",
    ];
    v.push(if P::ID == "C13" { "path wrappers cross-checked on the real file system" } else { "path wrapper cross-checked on the real file system" });
    if P::ID == "C13" {
        v.extend([
            "header with w*h >= 2^32",
            "header with zero width, non-zero height",
            "first raster byte looks like header syntax",
            "BufWriter flushed mid-image",
            "strided view written (stride > width)",
            "zero-area image written",
            "write error reported to the caller",
            "file larger than default buffer capacity",
        ]);
    } else {
        v.extend([
            "faces but no vertex line after fault",
            "reader polled again after EOF",
            "read error reported as Err(Io)",
            "near-miss workload (reference unsure)",
            "file larger than default BufReader capacity",
        ]);
    }
    v
}
