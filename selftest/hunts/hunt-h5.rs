//! Faithfulness hunt: independent reference for the well-formed OBJ subset,
//! compared bit-exactly against parse_obj / read_obj / load_obj.
#![allow(clippy::all)]

use std::cmp::Ordering;
use std::io::{BufReader, Cursor, Read};

use retrofire_geom::io::{load_obj, parse_obj, read_obj};

// ---------------------------------------------------------------------
// Minimal big unsigned integer (little-endian u32 limbs)
// ---------------------------------------------------------------------

#[derive(Clone, Debug, PartialEq, Eq)]
struct Big(Vec<u32>);

impl Big {
    fn zero() -> Self {
        Big(vec![])
    }
    fn from_u64(v: u64) -> Self {
        let mut b = Big(vec![v as u32, (v >> 32) as u32]);
        b.trim();
        b
    }
    fn trim(&mut self) {
        while self.0.last() == Some(&0) {
            self.0.pop();
        }
    }
    fn is_zero(&self) -> bool {
        self.0.is_empty()
    }
    fn mul_small(&mut self, m: u32) {
        let mut carry = 0u64;
        for l in self.0.iter_mut() {
            let t = *l as u64 * m as u64 + carry;
            *l = t as u32;
            carry = t >> 32;
        }
        if carry != 0 {
            self.0.push(carry as u32);
        }
        self.trim();
    }
    fn add_small(&mut self, a: u32) {
        let mut carry = a as u64;
        for l in self.0.iter_mut() {
            if carry == 0 {
                break;
            }
            let t = *l as u64 + carry;
            *l = t as u32;
            carry = t >> 32;
        }
        if carry != 0 {
            self.0.push(carry as u32);
        }
    }
    fn mul_pow10(&mut self, mut e: u32) {
        while e >= 9 {
            self.mul_small(1_000_000_000);
            e -= 9;
        }
        if e > 0 {
            self.mul_small(10u32.pow(e));
        }
    }
    fn shl(&self, bits: u32) -> Big {
        if self.is_zero() {
            return Big::zero();
        }
        let limbs = (bits / 32) as usize;
        let b = bits % 32;
        let mut out = vec![0u32; limbs];
        if b == 0 {
            out.extend_from_slice(&self.0);
        } else {
            let mut carry = 0u32;
            for &l in &self.0 {
                out.push((l << b) | carry);
                carry = l >> (32 - b);
            }
            if carry != 0 {
                out.push(carry);
            }
        }
        let mut r = Big(out);
        r.trim();
        r
    }
    fn mul_u64(&self, m: u64) -> Big {
        // self * m via two small multiplications
        let lo = m as u32;
        let hi = (m >> 32) as u32;
        let mut a = self.clone();
        a.mul_small(lo);
        let mut b = self.clone();
        b.mul_small(hi);
        let b = b.shl(32);
        a.add(&b)
    }
    fn add(&self, o: &Big) -> Big {
        let n = self.0.len().max(o.0.len());
        let mut out = Vec::with_capacity(n + 1);
        let mut carry = 0u64;
        for i in 0..n {
            let t = *self.0.get(i).unwrap_or(&0) as u64
                + *o.0.get(i).unwrap_or(&0) as u64
                + carry;
            out.push(t as u32);
            carry = t >> 32;
        }
        if carry != 0 {
            out.push(carry as u32);
        }
        let mut r = Big(out);
        r.trim();
        r
    }
    fn cmp(&self, o: &Big) -> Ordering {
        if self.0.len() != o.0.len() {
            return self.0.len().cmp(&o.0.len());
        }
        for i in (0..self.0.len()).rev() {
            if self.0[i] != o.0[i] {
                return self.0[i].cmp(&o.0[i]);
            }
        }
        Ordering::Equal
    }
}

// ---------------------------------------------------------------------
// Reference decimal -> f32 (round to nearest, ties to even), exact.
// ---------------------------------------------------------------------

/// Compares the exact rational num/den with m * 2^e (m integer).
fn cmp_ratio(num: &Big, den: &Big, m: u64, e: i32) -> Ordering {
    // num/den ? m*2^e   <=>  num * 2^max(-e,0) ? den * m * 2^max(e,0)
    let lhs = if e < 0 { num.shl((-e) as u32) } else { num.clone() };
    let rhs0 = den.mul_u64(m);
    let rhs = if e > 0 { rhs0.shl(e as u32) } else { rhs0 };
    lhs.cmp(&rhs)
}

/// Decomposes positive finite f32 bits (sign cleared) into (m, e): value = m*2^e.
fn decomp(bits: u32) -> (u64, i32) {
    let exp = (bits >> 23) as i32;
    let frac = (bits & 0x7f_ffff) as u64;
    if exp == 0 {
        (frac, -149)
    } else {
        (frac | 0x80_0000, exp - 150)
    }
}

/// Reference conversion of a numeral in the well-formed grammar:
/// [sign] digits [ '.' digits* ] [ (e|E) [sign] digits ]
/// (also tolerates ".5"; rejects anything else by returning None).
fn ref_f32(s: &str) -> Option<f32> {
    let b = s.as_bytes();
    let mut i = 0;
    let mut neg = false;
    if i < b.len() && (b[i] == b'+' || b[i] == b'-') {
        neg = b[i] == b'-';
        i += 1;
    }
    let mut digits = Big::zero();
    let mut nd = 0usize; // number of digits seen in mantissa
    let mut sig = 0i64; // significant digit count (after leading zeros)
    let mut frac_digits: i64 = 0;
    while i < b.len() && b[i].is_ascii_digit() {
        digits.mul_small(10);
        digits.add_small((b[i] - b'0') as u32);
        if sig > 0 || b[i] != b'0' {
            sig += 1;
        }
        nd += 1;
        i += 1;
    }
    if i < b.len() && b[i] == b'.' {
        i += 1;
        while i < b.len() && b[i].is_ascii_digit() {
            digits.mul_small(10);
            digits.add_small((b[i] - b'0') as u32);
            if sig > 0 || b[i] != b'0' {
                sig += 1;
            }
            frac_digits += 1;
            nd += 1;
            i += 1;
        }
    }
    if nd == 0 {
        return None;
    }
    let mut exp10: i64 = 0;
    if i < b.len() && (b[i] == b'e' || b[i] == b'E') {
        i += 1;
        let mut eneg = false;
        if i < b.len() && (b[i] == b'+' || b[i] == b'-') {
            eneg = b[i] == b'-';
            i += 1;
        }
        let mut ed = 0;
        while i < b.len() && b[i].is_ascii_digit() {
            exp10 = (exp10 * 10 + (b[i] - b'0') as i64).min(1_000_000_000);
            ed += 1;
            i += 1;
        }
        if ed == 0 {
            return None;
        }
        if eneg {
            exp10 = -exp10;
        }
    }
    if i != b.len() {
        return None;
    }
    let sign = if neg { -1.0f32 } else { 1.0 };
    if digits.is_zero() {
        return Some(0.0 * sign);
    }
    let e = exp10 - frac_digits; // value = digits * 10^e
    // Magnitude shortcut: value in [10^(sig-1+e), 10^(sig+e))
    if sig + e > 45 {
        return Some(f32::INFINITY * sign);
    }
    if sig + e < -60 {
        return Some(0.0 * sign);
    }
    let (num, den) = if e >= 0 {
        let mut n = digits.clone();
        n.mul_pow10(e as u32);
        (n, Big::from_u64(1))
    } else {
        let mut d = Big::from_u64(1);
        d.mul_pow10((-e) as u32);
        (digits.clone(), d)
    };
    // Largest positive-or-zero finite bit pattern f with f <= value.
    let max_bits = 0x7f7f_ffffu32;
    let (mut lo, mut hi) = (0u32, max_bits); // invariant: val(lo) <= value
    while lo < hi {
        let mid = lo + (hi - lo + 1) / 2;
        let (m, ee) = decomp(mid);
        if cmp_ratio(&num, &den, m, ee) != Ordering::Less {
            lo = mid;
        } else {
            hi = mid - 1;
        }
    }
    // midpoint between lo and lo+1 : (2m+1) * 2^(e-1) with (m,e) of lo,
    // valid also when lo is max finite (midpoint to 2^128).
    let (m, ee) = decomp(lo);
    let bits = match cmp_ratio(&num, &den, 2 * m + 1, ee - 1) {
        Ordering::Less => lo,
        Ordering::Greater => lo + 1,
        Ordering::Equal => {
            if lo & 1 == 0 {
                lo
            } else {
                lo + 1
            }
        }
    };
    // lo + 1 past max finite is 0x7f80_0000 = +inf, as IEEE prescribes
    Some(f32::from_bits(bits | if neg { 0x8000_0000 } else { 0 }))
}

// ---------------------------------------------------------------------
// Reference reader for the well-formed subset
// ---------------------------------------------------------------------

#[derive(Debug, PartialEq, Eq, Clone)]
struct RefMesh {
    verts: Vec<[u32; 3]>,
    faces: Vec<[usize; 3]>,
}

fn is_blank(b: u8) -> bool {
    b == b' ' || b == b'\t'
}

/// Returns Err(description) if the text is outside the well-formed subset.
fn ref_parse(bytes: &[u8]) -> Result<RefMesh, String> {
    let mut verts = vec![];
    let mut faces = vec![];
    let (mut nvt, mut nvn) = (0usize, 0usize);
    let (mut max_vt, mut max_vn) = (0usize, 0usize);
    // lines are terminated by LF; a CR directly before LF is tolerated
    let mut lines: Vec<&[u8]> = bytes.split(|&b| b == b'\n').collect();
    if bytes.last() == Some(&b'\n') || bytes.is_empty() {
        lines.pop();
    }
    for (ln, mut line) in lines.into_iter().enumerate() {
        if line.last() == Some(&b'\r') {
            line = &line[..line.len() - 1];
        }
        let mut p = 0;
        while p < line.len() && is_blank(line[p]) {
            p += 1;
        }
        if p == line.len() {
            continue;
        }
        if line[p] == b'#' {
            continue;
        }
        let rest = &line[p..];
        if !rest.is_ascii() {
            return Err(format!("line {ln}: non-ASCII outside comment"));
        }
        let fields: Vec<&str> = std::str::from_utf8(rest)
            .unwrap()
            .split(|c| c == ' ' || c == '\t')
            .filter(|f| !f.is_empty())
            .collect();
        let nums = |fs: &[&str]| -> Result<Vec<f32>, String> {
            fs.iter()
                .map(|f| ref_f32(f).ok_or(format!("line {ln}: bad numeral {f:?}")))
                .collect()
        };
        match fields[0] {
            "v" => {
                if fields.len() != 4 {
                    return Err(format!("line {ln}: v needs 3 numerals"));
                }
                let n = nums(&fields[1..])?;
                verts.push([n[0].to_bits(), n[1].to_bits(), n[2].to_bits()]);
            }
            "vt" => {
                if fields.len() != 3 && fields.len() != 4 {
                    return Err(format!("line {ln}: vt needs 2 or 3"));
                }
                nums(&fields[1..])?;
                nvt += 1;
            }
            "vn" => {
                if fields.len() != 4 {
                    return Err(format!("line {ln}: vn needs 3"));
                }
                nums(&fields[1..])?;
                nvn += 1;
            }
            "f" => {
                if fields.len() != 4 {
                    return Err(format!("line {ln}: f needs 3 corners"));
                }
                let mut tri = [0usize; 3];
                for (k, c) in fields[1..].iter().enumerate() {
                    let parts: Vec<&str> = c.split('/').collect();
                    let idx = |s: &str| -> Result<usize, String> {
                        if s.is_empty() || !s.bytes().all(|b| b.is_ascii_digit()) {
                            return Err(format!("line {ln}: bad index {s:?}"));
                        }
                        let mut v: usize = 0;
                        for b in s.bytes() {
                            v = v
                                .checked_mul(10)
                                .and_then(|v| v.checked_add((b - b'0') as usize))
                                .ok_or("overflow")?;
                        }
                        if v == 0 {
                            return Err(format!("line {ln}: index 0"));
                        }
                        Ok(v)
                    };
                    match parts.as_slice() {
                        [v] => tri[k] = idx(v)? - 1,
                        [v, t] => {
                            tri[k] = idx(v)? - 1;
                            max_vt = max_vt.max(idx(t)?);
                        }
                        [v, t, n] if t.is_empty() => {
                            tri[k] = idx(v)? - 1;
                            max_vn = max_vn.max(idx(n)?);
                        }
                        [v, t, n] => {
                            tri[k] = idx(v)? - 1;
                            max_vt = max_vt.max(idx(t)?);
                            max_vn = max_vn.max(idx(n)?);
                        }
                        _ => return Err(format!("line {ln}: bad corner {c:?}")),
                    }
                }
                faces.push(tri);
            }
            other => return Err(format!("line {ln}: item {other:?}")),
        }
    }
    for f in &faces {
        if f.iter().any(|&i| i >= verts.len()) {
            return Err("dangling vertex index".into());
        }
    }
    if max_vt > nvt || max_vn > nvn {
        return Err("dangling vt/vn index".into());
    }
    Ok(RefMesh { verts, faces })
}

// ---------------------------------------------------------------------
// Library side
// ---------------------------------------------------------------------

fn lib_mesh(b: retrofire_geom::io::Result<re::geom::mesh::Builder<()>>) -> Result<RefMesh, String> {
    match b {
        Err(e) => Err(format!("{e:?}")),
        Ok(b) => {
            let m = b.build();
            Ok(RefMesh {
                verts: m
                    .verts
                    .iter()
                    .map(|v| [v.pos.0[0].to_bits(), v.pos.0[1].to_bits(), v.pos.0[2].to_bits()])
                    .collect(),
                faces: m.faces.iter().map(|t| t.0).collect(),
            })
        }
    }
}

/// A reader that hands out the data in irregular short reads.
struct Dribble<'a> {
    data: &'a [u8],
    pos: usize,
    state: u64,
}
impl Read for Dribble<'_> {
    fn read(&mut self, buf: &mut [u8]) -> std::io::Result<usize> {
        self.state = self.state.wrapping_mul(6364136223846793005).wrapping_add(1442695040888963407);
        if (self.state >> 60) == 0 {
            return Err(std::io::ErrorKind::Interrupted.into());
        }
        let want = 1 + ((self.state >> 33) % 7) as usize;
        let n = want.min(buf.len()).min(self.data.len() - self.pos);
        buf[..n].copy_from_slice(&self.data[self.pos..self.pos + n]);
        self.pos += n;
        Ok(n)
    }
}

static FILE_CTR: std::sync::atomic::AtomicU64 = std::sync::atomic::AtomicU64::new(0);

/// Runs all entry points on `text` and demands the reference result from each.
fn check_all(text: &[u8], thorough_io: bool) -> Result<(), String> {
    let want = ref_parse(text).map_err(|e| format!("REFERENCE REJECTS: {e}"))?;
    let show = |what: &str, got: &Result<RefMesh, String>| -> String {
        let mut s = format!("{what}: mismatch\n");
        match got {
            Err(e) => s += &format!("  library error {e}\n"),
            Ok(g) => {
                if g.verts.len() != want.verts.len() {
                    s += &format!("  verts {} vs ref {}\n", g.verts.len(), want.verts.len());
                }
                if g.faces.len() != want.faces.len() {
                    s += &format!("  faces {} vs ref {}\n", g.faces.len(), want.faces.len());
                }
                for (i, (a, b)) in g.verts.iter().zip(&want.verts).enumerate() {
                    if a != b {
                        s += &format!("  vert {i}: lib {a:08x?} ref {b:08x?}\n");
                        break;
                    }
                }
                for (i, (a, b)) in g.faces.iter().zip(&want.faces).enumerate() {
                    if a != b {
                        s += &format!("  face {i}: lib {a:?} ref {b:?}\n");
                        break;
                    }
                }
            }
        }
        s
    };
    let got = lib_mesh(parse_obj(text.iter().copied()));
    if got.as_ref() != Ok(&want) {
        return Err(show("parse_obj", &got));
    }
    let got = lib_mesh(read_obj(text));
    if got.as_ref() != Ok(&want) {
        return Err(show("read_obj(&[u8])", &got));
    }
    if thorough_io {
        let got = lib_mesh(read_obj(BufReader::with_capacity(3, Cursor::new(text))));
        if got.as_ref() != Ok(&want) {
            return Err(show("read_obj(BufReader cap 3)", &got));
        }
        let mut d = Dribble { data: text, pos: 0, state: text.len() as u64 };
        let got = lib_mesh(read_obj(&mut d));
        if got.as_ref() != Ok(&want) {
            return Err(show("read_obj(&mut Dribble)", &got));
        }
        let half = text.len() / 2;
        let chained = (&text[..half]).chain(&text[half..]).take(text.len() as u64);
        let got = lib_mesh(read_obj(chained));
        if got.as_ref() != Ok(&want) {
            return Err(show("read_obj(Chain/Take)", &got));
        }
        let n = FILE_CTR.fetch_add(1, std::sync::atomic::Ordering::Relaxed);
        let path = std::env::temp_dir().join(format!("hunt-h5-{}-{n}.obj", std::process::id()));
        std::fs::write(&path, text).unwrap();
        let got = lib_mesh(load_obj(&path));
        let _ = std::fs::remove_file(&path);
        if got.as_ref() != Ok(&want) {
            return Err(show("load_obj", &got));
        }
    }
    Ok(())
}

fn excerpt(text: &[u8]) -> String {
    let s = String::from_utf8_lossy(text);
    if s.len() > 600 {
        format!("{}...[{} bytes]", &s[..s.char_indices().nth(600).map(|x| x.0).unwrap_or(s.len())], text.len())
    } else {
        s.into_owned()
    }
}

fn must(text: &[u8]) {
    if let Err(e) = check_all(text, true) {
        panic!("{e}\nfile:\n{}", excerpt(text));
    }
}

// ---------------------------------------------------------------------
// Tests
// ---------------------------------------------------------------------

#[test]
fn reference_float_selfcheck() {
    // Hand-verified anchors for the reference itself (independent of std's parser)
    let cases: &[(&str, u32)] = &[
        ("0", 0),
        ("-0", 0x8000_0000),
        ("-0.0e5", 0x8000_0000),
        ("1", 0x3f80_0000),
        ("1.0", 0x3f80_0000),
        ("0.5", 0x3f00_0000),
        ("-2", 0xc000_0000),
        ("0.1", 0x3dcc_cccd),
        ("16777216", 0x4b80_0000),
        ("16777217", 0x4b80_0000), // tie -> even
        ("16777218", 0x4b80_0001),
        ("16777219", 0x4b80_0002), // tie -> even
        ("16777217.0000000000000000000001", 0x4b80_0001),
        ("3.4028234663852886e38", 0x7f7f_ffff),
        ("3.4028235e38", 0x7f7f_ffff),
        ("340282356779733661637539395458142568448", 0x7f80_0000), // exact midpoint max..2^128 -> even = inf
        ("340282356779733661637539395458142568447.99999", 0x7f7f_ffff),
        ("3.4028235677973366e38", 0x7f7f_ffff), // just below the midpoint
        ("3.4028236e38", 0x7f80_0000),
        ("1e39", 0x7f80_0000),
        ("1e-45", 1),
        ("1.401298464324817e-45", 1),
        ("7.006492321624085e-46", 0), // exactly half the least subnormal (to 16 digits, slightly below)
        ("7.1e-46", 1),
        ("1e-46", 0),
        ("1.17549435e-38", 0x0080_0000),
        ("1.1754942e-38", 0x007f_ffff),
        ("100e-2", 0x3f80_0000),
        ("1E+0002", 0x4000_0000 + 0x02c8_0000), // 100.0 = 0x42c80000
    ];
    for (s, bits) in cases {
        let got = ref_f32(s).unwrap().to_bits();
        assert_eq!(got, *bits, "ref_f32({s}) = {got:08x}, expected {bits:08x}");
    }
    assert!(ref_f32("").is_none());
    assert!(ref_f32("1e").is_none());
    assert!(ref_f32("inf").is_none());
    assert!(ref_f32("1.0f").is_none());
}

impl Big {
    fn to_decimal(&self) -> String {
        if self.is_zero() {
            return "0".into();
        }
        let mut limbs = self.0.clone();
        let mut chunks = vec![];
        while !limbs.is_empty() {
            let mut rem = 0u64;
            for l in limbs.iter_mut().rev() {
                let t = (rem << 32) | *l as u64;
                *l = (t / 1_000_000_000) as u32;
                rem = t % 1_000_000_000;
            }
            while limbs.last() == Some(&0) {
                limbs.pop();
            }
            chunks.push(rem as u32);
        }
        let mut s = format!("{}", chunks.pop().unwrap());
        while let Some(c) = chunks.pop() {
            s += &format!("{c:09}");
        }
        s
    }
}

struct Rng(u64);
impl Rng {
    fn next(&mut self) -> u64 {
        self.0 = self.0.wrapping_add(0x9e3779b97f4a7c15);
        let mut z = self.0;
        z = (z ^ (z >> 30)).wrapping_mul(0xbf58476d1ce4e5b9);
        z = (z ^ (z >> 27)).wrapping_mul(0x94d049bb133111eb);
        z ^ (z >> 31)
    }
    fn below(&mut self, n: u64) -> u64 {
        self.next() % n
    }
    fn chance(&mut self, num: u64, den: u64) -> bool {
        self.below(den) < num
    }
}

/// Exact decimal expansion (digits, exp10) of m * 2^e : value = digits * 10^exp10
fn exact_decimal(m: u64, e: i32) -> (String, i32) {
    if e >= 0 {
        (Big::from_u64(m).shl(e as u32).to_decimal(), 0)
    } else {
        let mut b = Big::from_u64(m);
        for _ in 0..(-e) {
            b.mul_small(5);
        }
        (b.to_decimal(), e)
    }
}

/// Writes digits*10^exp10 in one of several notations of the well-formed grammar.
fn render(digits: &str, exp10: i32, style: u64, rng: &mut Rng) -> String {
    let lead = match rng.below(4) {
        0 => "0",
        1 => "000",
        _ => "",
    };
    let exp_str = |e: i32, rng: &mut Rng| -> String {
        let c = if rng.chance(1, 2) { 'e' } else { 'E' };
        let sign = if e < 0 {
            "-"
        } else if rng.chance(1, 2) {
            "+"
        } else {
            ""
        };
        let zeros = ["", "0", "000"][rng.below(3) as usize];
        format!("{c}{sign}{zeros}{}", e.unsigned_abs())
    };
    match style % 4 {
        // integer mantissa with exponent
        0 => format!("{lead}{digits}{}", exp_str(exp10, rng)),
        // plain positional notation
        1 => {
            if exp10 >= 0 {
                format!("{lead}{digits}{}", "0".repeat(exp10 as usize))
            } else {
                let k = (-exp10) as usize;
                if digits.len() > k {
                    let (a, b) = digits.split_at(digits.len() - k);
                    format!("{lead}{a}.{b}")
                } else {
                    format!("{lead}0.{}{digits}", "0".repeat(k - digits.len()))
                }
            }
        }
        // scientific: d.ddd e X
        2 => {
            let (a, b) = digits.split_at(1);
            let e = exp10 + b.len() as i32;
            format!("{lead}{a}.{b}{}", exp_str(e, rng))
        }
        // point somewhere in the middle, compensating exponent
        _ => {
            let cut = 1 + rng.below(digits.len() as u64) as usize;
            let (a, b) = digits.split_at(cut);
            let e = exp10 + b.len() as i32;
            format!("{lead}{a}.{b}{}", exp_str(e, rng))
        }
    }
}

/// Decimal string arithmetic: digits - 1 (digits > 0, no leading-zero care needed)
fn dec_minus_one(d: &str) -> String {
    let mut v: Vec<u8> = d.bytes().collect();
    let mut i = v.len();
    loop {
        i -= 1;
        if v[i] > b'0' {
            v[i] -= 1;
            break;
        }
        v[i] = b'9';
    }
    String::from_utf8(v).unwrap()
}

fn numerals_to_file(nums: &[String]) -> Vec<u8> {
    let mut out = String::new();
    for ch in nums.chunks(3) {
        out += "v";
        for k in 0..3 {
            out += " ";
            out += ch.get(k).map(|s| s.as_str()).unwrap_or("0");
        }
        out += "\n";
    }
    out.into_bytes()
}

/// Checks each numeral separately so that the culprit is named.
fn check_numerals(nums: &[String]) {
    let file = numerals_to_file(nums);
    if check_all(&file, false).is_ok() {
        return;
    }
    let mut bad = vec![];
    for n in nums {
        let text = format!("v {n} 0 0\n");
        let want = ref_f32(n).expect("reference rejects numeral").to_bits();
        match parse_obj(text.bytes()) {
            Ok(b) => {
                let got = b.build().verts[0].pos.0[0].to_bits();
                if got != want {
                    bad.push(format!("{n}: lib {got:08x} ref {want:08x}"));
                }
            }
            Err(e) => bad.push(format!("{n}: lib error {e:?}, ref {want:08x}")),
        }
    }
    panic!("{} numeral mismatches, first few:\n{}", bad.len(), bad[..bad.len().min(10)].join("\n"));
}

#[test]
fn numerals_named_in_the_brief() {
    let nums: Vec<String> = [
        "1e-46", "3.4028236e38", "16777217", "0.1", "-0", "-0.0", "-0e0", "0e-0", "-0.000E+000",
        "3.4028235e38", "3.4028234663852886e38", "340282356779733661637539395458142568448",
        "340282356779733661637539395458142568447", "340282346638528859811704183484516925440",
        "1.401298464324817e-45", "0.7006492321624085e-45", "7.0064923216240853546186479164495806564013097093825788587853e-46",
        "7.0064923216240853546186479164495806564013097093825788587854e-46",
        "1.17549435e-38", "1.1754942e-38", "1.1754943e-38", "16777217.0", "16777216.999999999999999999999",
        "16777217.000000000000000000001", "9007199254740993", "0.30000001192092896", "0.3", "1e0", "1E0",
        "1e+0", "1e-0", "1e00000000000000000000000000000000000001", "1e-00000000000000000000000000000000000001",
        "0e99999999999999999999", "0e-99999999999999999999", "1e99999999999999999999", "1e-99999999999999999999",
        "-1e99999999999999999999", "-1e-99999999999999999999",
        "0.000000000000000000000000000000000000000000001", "100000000000000000000000000000000000000",
        "1000000000000000000000000000000000000000", "4294967296", "4294967295", "2147483648", "18446744073709551616",
        "18446744073709551615", "123456789012345678901234567890", "0.1e1", "00.1", "000", "0", "00000000001",
        "1.", "1.e2", "-1.", "8.5", "2.5", "1.5", "0.125", "33554434", "33554435", "33554433",
    ]
    .iter()
    .map(|s| s.to_string())
    .collect();
    check_numerals(&nums);
    // 0.1 repeated
    let many = vec!["0.1".to_string(); 30000];
    check_numerals(&many);
}

#[test]
fn numerals_long_mantissas() {
    let mut nums = vec![];
    for n in [100usize, 767, 768, 769, 770, 800, 1000, 5000, 20000] {
        // 1.000...0001 and 0.999...9
        nums.push(format!("1.{}1", "0".repeat(n)));
        nums.push(format!("0.{}", "9".repeat(n)));
        nums.push(format!("{}", "9".repeat(n)));
        nums.push(format!("{}e-{}", "9".repeat(n), n));
        nums.push(format!("{}e-{}", "9".repeat(n), n - 38));
        nums.push(format!("0.{}1", "0".repeat(n)));
        nums.push(format!("0.{}1e{}", "0".repeat(n), n));
        nums.push(format!("0.{}1e{}", "0".repeat(n), n + 39));
        nums.push(format!("1{}e-{}", "0".repeat(n), n));
        nums.push(format!("1{}", "0".repeat(n)));
        nums.push(format!("1{}.{}", "0".repeat(n), "0".repeat(n)));
        // tie at 16777217 broken (or not) only by a digit far away
        nums.push(format!("16777217.{}1", "0".repeat(n)));
        nums.push(format!("16777217.{}", "0".repeat(n)));
        nums.push(format!("16777216.{}", "9".repeat(n)));
        nums.push(format!("16777219.{}1", "0".repeat(n)));
        nums.push(format!("16777218.{}", "9".repeat(n)));
        nums.push(format!("16777219.{}", "0".repeat(n)));
        nums.push(format!("{}16777217.{}1e-{}", "0".repeat(n), "0".repeat(n), "0".repeat(n) + "3"));
        // subnormal tie with far digit
        let (d, e) = exact_decimal(3, -150); // 1.5 * 2^-149
        nums.push(format!("{d}{}1e{}", "0".repeat(n), e - n as i32 - 1));
        nums.push(format!("{d}{}e{}", "0".repeat(n), e - n as i32));
        let (d, e) = exact_decimal(1, -150); // half the least subnormal -> 0 (even)
        nums.push(format!("{d}{}e{}", "0".repeat(n), e - n as i32));
        nums.push(format!("{d}{}1e{}", "0".repeat(n), e - n as i32 - 1));
        nums.push(format!("-{d}{}e{}", "0".repeat(n), e - n as i32));
        // max-finite tie with far digit
        let (d, _) = exact_decimal((1 << 25) - 1, 103);
        nums.push(format!("{d}.{}1", "0".repeat(n)));
        nums.push(format!("{d}.{}", "0".repeat(n)));
        nums.push(format!("{}.{}", dec_minus_one(&d), "9".repeat(n)));
    }
    check_numerals(&nums);
}

#[test]
fn numerals_at_rounding_midpoints() {
    let mut rng = Rng(0x5eed_0001);
    let mut nums = vec![];
    let mut specials: Vec<u32> = vec![
        0, 1, 2, 3, 0x007f_fffe, 0x007f_ffff, 0x0080_0000, 0x0080_0001, 0x7f7f_fffe, 0x7f7f_ffff,
        0x3f80_0000, 0x3f7f_ffff, 0x4b80_0000, 0x4b7f_ffff, 0x4b00_0000, 0x4aff_ffff,
    ];
    for _ in 0..6000 {
        let b = match rng.below(5) {
            0 => rng.below(0x0100_0000) as u32,                     // subnormals & tiny normals
            1 => 0x7f7f_ffff - rng.below(0x0100_0000) as u32,       // huge
            2 => 0x3000_0000 + rng.below(0x2000_0000) as u32,       // everyday magnitudes
            _ => rng.below(0x7f80_0000) as u32,
        };
        specials.push(b);
    }
    for b in specials {
        let (m, e) = decomp(b);
        let (mid, me) = exact_decimal(2 * m + 1, e - 1);
        let neg = if rng.chance(1, 3) { "-" } else { "" };
        let style = rng.next();
        // exact midpoint
        nums.push(format!("{neg}{}", render(&mid, me, style, &mut rng)));
        // a hair above / below, at varying distance
        let k = [1usize, 3, 20, 60][rng.below(4) as usize];
        let above = format!("{mid}{}1", "0".repeat(k - 1));
        nums.push(format!("{neg}{}", render(&above, me - k as i32, style >> 8, &mut rng)));
        let below = format!("{}{}", dec_minus_one(&mid), "9".repeat(k));
        let below = below.trim_start_matches('0');
        if !below.is_empty() {
            nums.push(format!("{neg}{}", render(below, me - k as i32, style >> 16, &mut rng)));
        }
        // the exact value itself, and shortest-ish renderings via truncation to 9 and 17 digits
        let (ex, ee) = exact_decimal(m.max(1), e);
        nums.push(format!("{neg}{}", render(&ex, ee, style >> 24, &mut rng)));
        for keep in [8usize, 9, 17, 25] {
            if ex.len() > keep {
                let t = &ex[..keep];
                nums.push(format!("{neg}{}", render(t, ee + (ex.len() - keep) as i32, style >> 32, &mut rng)));
            }
        }
    }
    assert!(nums.len() > 40000);
    check_numerals(&nums);
}

#[test]
fn numerals_random_text() {
    let mut rng = Rng(0x5eed_0002);
    let mut nums = vec![];
    for _ in 0..60000 {
        let lim = if rng.chance(1, 10) { 60 } else { 12 };
        let nd = 1 + rng.below(lim) as usize;
        let mut d = String::new();
        for _ in 0..nd {
            d.push((b'0' + rng.below(10) as u8) as char);
        }
        let d = d.trim_start_matches('0');
        let d = if d.is_empty() { "0" } else { d };
        let e = rng.below(100) as i32 - 55 - nd as i32 / 2;
        let neg = if rng.chance(1, 2) { "-" } else { "" };
        let style = rng.next();
        nums.push(format!("{neg}{}", render(d, e, style, &mut rng)));
    }
    check_numerals(&nums);
}

// ---------------------------------------------------------------------
// Generated well-formed files
// ---------------------------------------------------------------------

fn ws(rng: &mut Rng, min: usize) -> String {
    let n = min
        + match rng.below(10) {
            0..=5 => 0,
            6..=8 => rng.below(4) as usize,
            _ => rng.below(40) as usize,
        };
    (0..n.max(min)).map(|_| if rng.chance(1, 4) { '\t' } else { ' ' }).collect()
}

fn gen_numeral(rng: &mut Rng) -> String {
    match rng.below(8) {
        0 => format!("{}", rng.below(20) as i64 - 10),
        1 => format!("{:.3}", (rng.below(200000) as f64 - 100000.0) / 1000.0),
        2 => format!("{:e}", f32::from_bits(rng.below(0x7f80_0000) as u32)),
        3 => format!("-{}", f32::from_bits(0x3000_0000 + rng.below(0x2000_0000) as u32)),
        4 => {
            let d = format!("{}", 1 + rng.below(999_999_999));
            let e = rng.below(60) as i32 - 40;
            let s = rng.next();
            render(&d, e, s, rng)
        }
        5 => ["-0", "0", "1e-46", "3.4028236e38", "16777217", "0.1", "-0.0", "1E+2", "1e-045"]
            [rng.below(9) as usize]
            .to_string(),
        6 => format!("{}", f32::from_bits(rng.below(0x7f80_0000) as u32) as f64 * 1.0000000001),
        _ => format!("{}.{}", rng.below(1000), rng.below(100000)),
    }
}

fn gen_comment(rng: &mut Rng, out: &mut Vec<u8>) {
    out.extend(ws(rng, 0).bytes());
    out.push(b'#');
    match rng.below(8) {
        0 => out.extend(b"v 1 2 3"),
        1 => out.extend(b" f 1 2 3"),
        2 => out.extend(b"#f 9/9/9 9/9/9 9/9/9 # v"),
        3 => out.extend(b"\tvt 0.5 0.5 # vn 1 0 0"),
        4 => {
            for _ in 0..rng.below(30) {
                let b = 0x80 + rng.below(0x80) as u8;
                out.push(b);
            }
            out.extend(b" v 1 2 3");
        }
        5 => {
            for _ in 0..rng.below(60) {
                let mut b = rng.below(256) as u8;
                if b == b'\n' {
                    b = b'#';
                }
                out.push(b);
            }
        }
        6 => out.extend("glued#hash#v 1 2 3 \u{85}\u{a0}\u{2028} f 1 2 3".bytes()),
        _ => {}
    }
}

struct GenOpts {
    max_verts: usize,
    max_faces: usize,
    mix_forms_in_face: bool,
}

fn gen_file(rng: &mut Rng, o: &GenOpts) -> Vec<u8> {
    let nv = match rng.below(6) {
        0 => 0,
        1 => 1 + rng.below(3) as usize,
        _ => rng.below(o.max_verts as u64 + 1) as usize,
    };
    let nvt = if rng.chance(1, 3) { 0 } else { 1 + rng.below(20) as usize };
    let nvn = if rng.chance(1, 3) { 0 } else { 1 + rng.below(20) as usize };
    let nf = if nv == 0 { 0 } else { rng.below(o.max_faces as u64 + 1) as usize };

    // Item kinds: 0 v, 1 vt, 2 vn, 3 f
    let mut items: Vec<u8> = vec![];
    items.extend(std::iter::repeat(0).take(nv));
    items.extend(std::iter::repeat(1).take(nvt));
    items.extend(std::iter::repeat(2).take(nvn));
    let layout = rng.below(4);
    match layout {
        0 => {
            // faces first
            let mut fs = vec![3u8; nf];
            shuffle(rng, &mut items);
            fs.extend(items);
            items = fs;
        }
        1 => {
            // faces last
            shuffle(rng, &mut items);
            items.extend(std::iter::repeat(3).take(nf));
        }
        2 => {
            // the classic order v.. vt.. vn.. f..
            items.extend(std::iter::repeat(3).take(nf));
        }
        _ => {
            items.extend(std::iter::repeat(3).take(nf));
            shuffle(rng, &mut items);
        }
    }

    let mut out: Vec<u8> = vec![];
    let file_form = rng.below(4);
    let n_items = items.len();
    for (k, it) in items.into_iter().enumerate() {
        // decorations before the item
        while rng.chance(1, 4) {
            match rng.below(3) {
                0 => out.push(b'\n'),
                1 => {
                    out.extend(ws(rng, 0).bytes());
                    out.push(b'\n');
                }
                _ => {
                    gen_comment(rng, &mut out);
                    out.push(b'\n');
                }
            }
        }
        out.extend(ws(rng, 0).bytes());
        match it {
            0 | 2 => {
                out.extend(if it == 0 { &b"v"[..] } else { &b"vn"[..] });
                for _ in 0..3 {
                    out.extend(ws(rng, 1).bytes());
                    out.extend(gen_numeral(rng).bytes());
                }
            }
            1 => {
                out.extend(b"vt");
                for _ in 0..(2 + rng.below(2)) {
                    out.extend(ws(rng, 1).bytes());
                    out.extend(gen_numeral(rng).bytes());
                }
            }
            _ => {
                out.push(b'f');
                let face_form = if o.mix_forms_in_face { 4 } else { file_form_pick(rng, file_form) };
                for _ in 0..3 {
                    out.extend(ws(rng, 1).bytes());
                    let mut form = if face_form == 4 { rng.below(4) } else { face_form };
                    if nvt == 0 && (form == 1 || form == 3) {
                        form = if nvn > 0 { 2 } else { 0 };
                    }
                    if nvn == 0 && (form == 2 || form == 3) {
                        form = if nvt > 0 && form == 3 { 1 } else { 0 };
                    }
                    // bias towards the last vertex / first vertex
                    let vi = match rng.below(6) {
                        0 => nv,
                        1 => 1,
                        _ => 1 + rng.below(nv as u64) as usize,
                    };
                    let zeros = if rng.chance(1, 10) { "00" } else { "" };
                    let s = match form {
                        0 => format!("{zeros}{vi}"),
                        1 => format!("{zeros}{vi}/{}", 1 + rng.below(nvt as u64)),
                        2 => format!("{vi}//{zeros}{}", 1 + rng.below(nvn as u64)),
                        _ => format!("{vi}/{}/{}", 1 + rng.below(nvt as u64), 1 + rng.below(nvn as u64)),
                    };
                    out.extend(s.bytes());
                }
            }
        }
        out.extend(ws(rng, 0).bytes());
        if k + 1 < n_items || rng.chance(1, 2) {
            out.push(b'\n');
        }
    }
    // trailing decorations
    if out.last() == Some(&b'\n') || out.is_empty() {
        while rng.chance(1, 3) {
            if rng.chance(1, 2) {
                gen_comment(rng, &mut out);
            } else {
                out.extend(ws(rng, 0).bytes());
            }
            if rng.chance(2, 3) {
                out.push(b'\n');
            } else {
                break;
            }
        }
    }
    out
}

fn file_form_pick(rng: &mut Rng, file_form: u64) -> u64 {
    // mostly the file's form, sometimes another one (faces differ, corners agree)
    if rng.chance(1, 5) {
        rng.below(4)
    } else {
        file_form
    }
}

fn shuffle<T>(rng: &mut Rng, v: &mut [T]) {
    for i in (1..v.len()).rev() {
        let j = rng.below(i as u64 + 1) as usize;
        v.swap(i, j);
    }
}

#[test]
fn generated_small_files() {
    let mut rng = Rng(0xf11e_0001);
    for i in 0..20000 {
        let o = GenOpts { max_verts: 12, max_faces: 10, mix_forms_in_face: i % 2 == 0 };
        let f = gen_file(&mut rng, &o);
        if let Err(e) = check_all(&f, i % 16 == 0) {
            panic!("case {i}: {e}\nfile:\n{}", excerpt(&f));
        }
    }
}

#[test]
fn generated_medium_files() {
    let mut rng = Rng(0xf11e_0002);
    for i in 0..300 {
        let o = GenOpts { max_verts: 3000, max_faces: 3000, mix_forms_in_face: i % 2 == 0 };
        let f = gen_file(&mut rng, &o);
        if let Err(e) = check_all(&f, i % 16 == 0) {
            panic!("case {i}: {e}\nfile:\n{}", excerpt(&f));
        }
    }
}

#[test]
#[ignore]
fn dump_samples() {
    let mut rng = Rng(0xf11e_0001);
    let (mut with_faces, mut total_faces, mut total_verts, mut no_final_nl) = (0, 0, 0, 0);
    for i in 0..2000 {
        let o = GenOpts { max_verts: 12, max_faces: 10, mix_forms_in_face: i % 2 == 0 };
        let f = gen_file(&mut rng, &o);
        let m = ref_parse(&f).unwrap();
        with_faces += (!m.faces.is_empty()) as usize;
        total_faces += m.faces.len();
        total_verts += m.verts.len();
        no_final_nl += (f.last() != Some(&b'\n')) as usize;
        if i < 3 {
            println!("---- sample {i}\n{}\n----", String::from_utf8_lossy(&f));
        }
    }
    println!("with_faces {with_faces} faces {total_faces} verts {total_verts} no_final_nl {no_final_nl}");
}

// ---------------------------------------------------------------------
// Hand-written adversarial well-formed files
// ---------------------------------------------------------------------

#[test]
fn handwritten_wellformed() {
    let files: &[&[u8]] = &[
        b"",
        b"\n",
        b"\n\n\n",
        b" ",
        b"\t",
        b" \t \n\t\n",
        b"#",
        b"#\n",
        b"##",
        b" #",
        b"\t#\t",
        b"#v 1 2 3",
        b"# v 1 2 3\n",
        b"#f 1 2 3\n",
        b"  \t # f 1 2 3\nv 1 2 3",
        b"v 1 2 3",
        b"v 1 2 3\n",
        b"v 1 2 3 ",
        b"v 1 2 3\t\n",
        b"\tv\t1\t2\t3\t",
        b"v 1 2 3\n\n",
        b"v 1 2 3\n#",
        b"v 1 2 3\n #x",
        b"v 1 2 3\n ",
        b"f 1 1 1\nv 0 0 0",
        b"f 1 1 1\nv 0 0 0\n",
        b"v 0 0 0\nf 1 1 1",
        b"f 1 2 3\nf 3 2 1\nv 1 0 0\nv 0 1 0\nv 0 0 1\n",
        b"v 1 0 0\nf 1 2 3\nv 0 1 0\nf 3 2 1\nv 0 0 1\n",
        b"v 1 0 0\nv 0 1 0\nv 0 0 1\nf 1 2 3\nf 3 2 1",
        // the four index forms
        b"vt 0 0\nvn 0 0 1\nv 1 0 0\nv 0 1 0\nv 0 0 1\nf 1 2 3\nf 1/1 2/1 3/1\nf 1//1 2//1 3//1\nf 1/1/1 2/1/1 3/1/1\n",
        // forms mixed inside one face
        b"vt 0 0\nvn 0 0 1\nv 1 0 0\nv 0 1 0\nv 0 0 1\nf 1 2/1 3//1\nf 3/1/1 2 1/1\nf 2//1 2/1/1 2\n",
        // attribute indices larger than the vertex count (but within vt / vn counts)
        b"v 0 0 0\nvt 0 0\nvt 1 0\nvt 0 1\nvn 1 0 0\nvn 0 1 0\nf 1/3/2 1/2/1 1/1/2\n",
        // vt/vn after the faces that use them
        b"f 1/1/1 1/2/2 1/3/3\nvn 1 0 0\nv 9 8 7\nvt 0 0\nvn 1 0 0\nvt 0 0 0\nvt 1e0 1\nvn -0 0 1",
        // vt with two and three numerals
        b"vt 0.5 0.5\nvt 0.5 0.5 0.5\nv 1 2 3\nf 1/1 1/2 1/1",
        // comments holding valid-looking items and non-ASCII bytes
        b"# v 1 2 3\n#v 1 2 3\n #\tv 1 2 3\n\t#f 1 2 3\nv 4 5 6\n#\xff\xfe\x80 v 7 8 9\n# \xc3\xa4\xc3\xb6 f 1 1 1\nv 7 8 9\n#f 2 2 2",
        b"#\x00\x01\x02\x0b\x0c\x1c\x1d\x1e\x1f\x7f\nv 1 2 3\n#\xa0\x85\n",
        b"v 1 2 3\n#comment#with#hashes v 1 2 3\n##\n#  #\n#v#1 is not here\n",
        b"##v 1 2 3\n#\t#\n# # f 1 2 3\nv 1 2 3\n",
        // numerals
        b"v 1e-46 3.4028236e38 16777217\nv 0.1 0.1 0.1\nv -0 -0.0 -0e0\n",
        b"v 1.23e3 9.87e-1 -5.67e002\nv 1.23 9.87 -5.67\nv 1E5 1e+5 1E-05",
        b"v 340282356779733661637539395458142568448 340282356779733661637539395458142568447 -340282356779733661637539395458142568448",
        b"v 0.00000000000000000000000000000000000000000000070064923216240853546186479164495806564013097093825788587853 0.00000000000000000000000000000000000000000000070064923216240853546186479164495806564013097093825788587854 0\n",
        // index written with leading zeros
        b"v 1 2 3\nf 001 01 1\n",
    ];
    for f in files {
        must(f);
    }
}

#[test]
fn large_files() {
    // 70 000 vertices, faces on the last one, faces first / last / interleaved
    for layout in 0..3 {
        let n = 70_000usize;
        let mut s = String::new();
        let face = |s: &mut String, a: usize, b: usize, c: usize| {
            *s += &format!("f {a} {b}/1 {c}//1\n");
        };
        s += "vt 0 0\nvn 0 0 1\n";
        if layout == 0 {
            face(&mut s, n, n, n);
            face(&mut s, 1, 65536, 65537);
            face(&mut s, n - 1, 65535, n);
        }
        for i in 0..n {
            s += &format!("v {i} {}.5 -{i}e-3\n", i * 3);
            if layout == 2 && i % 1000 == 0 {
                face(&mut s, n, i + 1, n - i);
            }
        }
        if layout == 1 {
            face(&mut s, n, n, n);
            face(&mut s, 1, 65536, 65537);
            face(&mut s, n - 1, 65535, n);
        }
        if let Err(e) = check_all(s.as_bytes(), true) {
            panic!("layout {layout}: {e}");
        }
        let m = ref_parse(s.as_bytes()).unwrap();
        assert_eq!(m.verts.len(), n);
        assert_eq!(m.verts[n - 1][0], ((n - 1) as f32).to_bits());
        assert!(m.faces.iter().any(|f| f.contains(&(n - 1))));
    }
    // 40 000 faces over 3 vertices, every form
    let mut s = String::from("v 0 0 0\nv 1 0 0\nv 0 1 0\nvt 0 0\nvn 0 0 1\n");
    for i in 0..40_000usize {
        let (a, b, c) = (1 + i % 3, 1 + (i / 3) % 3, 1 + (i / 9) % 3);
        match i % 4 {
            0 => s += &format!("f {a} {b} {c}\n"),
            1 => s += &format!("f {a}/1 {b}/1 {c}/1\n"),
            2 => s += &format!("f {a}//1 {b}//1 {c}//1\n"),
            _ => s += &format!("f {a}/1/1 {b}/1/1 {c}/1/1\n"),
        }
    }
    must(s.as_bytes());
}

#[test]
fn long_lines() {
    for n in [1000usize, 4096, 8191, 8192, 8193, 65536, 300_000] {
        let sp = " ".repeat(n);
        let tb = "\t".repeat(n);
        let mut s = String::new();
        s += &format!("{sp}v{tb}1{sp}2{tb}3{sp}\n");
        s += &format!("{tb}#{}\n", "v 1 2 3 ".repeat(n / 8));
        s += &format!("{sp}\n");
        s += &format!("f{sp}1{sp}2{sp}1{sp}\n");
        s += &format!("v 0.{} {}.5 1{}e-{}", "3".repeat(n), "0".repeat(n), "0".repeat(n), n);
        let mut bytes = s.into_bytes();
        must(&bytes);
        // long comment of non-ASCII bytes at the end, no final newline
        bytes.extend(b"\n#");
        bytes.extend(std::iter::repeat(0xe9u8).take(n));
        must(&bytes);
    }
}

/// The harness itself must notice deviations: feed it files where the library is
/// known to differ from the reference and demand a complaint.
#[test]
fn harness_notices_deviations() {
    // reference rejects quads; the harness says so instead of passing silently
    assert!(check_all(b"v 0 0 0\nv 1 0 0\nv 0 1 0\nv 1 1 0\nf 1 2 3 4\n", false)
        .unwrap_err()
        .starts_with("REFERENCE REJECTS"));
    // a reference mesh that differs from the library's is reported
    let text = b"v 1 2 3\nv 4 5 6\nf 1 2 1\n";
    let mut want = ref_parse(text).unwrap();
    let got = lib_mesh(parse_obj(text.iter().copied())).unwrap();
    assert_eq!(got, want);
    want.verts[1][2] ^= 1;
    assert_ne!(got, want);
    want.verts[1][2] ^= 1;
    want.faces[0][1] = 0;
    assert_ne!(got, want);
}

// ---------------------------------------------------------------------
// Borderline inputs (outside the well-formed subset as worded): record behaviour
// ---------------------------------------------------------------------

fn describe(text: &[u8]) -> String {
    match lib_mesh(parse_obj(text.iter().copied())) {
        Err(e) => format!("Err({e})"),
        Ok(m) => format!(
            "Ok verts={:?} faces={:?}",
            m.verts.iter().map(|v| v.map(f32::from_bits)).collect::<Vec<_>>(),
            m.faces
        ),
    }
}

#[test]
#[ignore]
fn probe_borderline() {
    let tri = "v 0 0 0\nv 1 0 0\nv 0 1 0\nv 1 1 0\nv 2 2 2\n";
    let cases: Vec<(&str, Vec<u8>)> = vec![
        ("quad", format!("{tri}f 1 2 3 4\n").into_bytes()),
        ("pentagon (module doc example)", format!("{tri}f 1 2 3 4 5\n").into_bytes()),
        ("two corners", format!("{tri}f 1 2\n").into_bytes()),
        ("4th corner garbage", format!("{tri}f 1 2 3 xyz\n").into_bytes()),
        ("4th corner dangling", format!("{tri}f 1 2 3 99\n").into_bytes()),
        ("v with w", b"v 1 2 3 4\n".to_vec()),
        ("v with junk", b"v 1 2 3 junk\n".to_vec()),
        ("v trailing comment", b"v 1 2 3 # c\n".to_vec()),
        ("v glued comment", b"v 1 2 3#c\n".to_vec()),
        ("v two", b"v 1 2\n".to_vec()),
        ("vt one", b"vt 1\nv 1 2 3\n".to_vec()),
        ("vt four", b"vt 1 2 3 4\nv 1 2 3\n".to_vec()),
        ("CR only line ends", b"v 1 2 3\rv 4 5 6\rf 1 2 1\r".to_vec()),
        ("CR only, comment first", b"# c\rv 4 5 6\r".to_vec()),
        ("CRLF", b"v 1 2 3\r\nv 4 5 6\r\nf 1 2 1\r\n# c\r\n\r\n".to_vec()),
        ("FF as blank", b"v\x0c1\x0c2\x0c3\n".to_vec()),
        ("VT as blank", b"v\x0b1 2 3\n".to_vec()),
        ("NBSP latin1 indentation", b"\xa0v 1 2 3\n".to_vec()),
        ("BOM", b"\xef\xbb\xbfv 1 2 3\n".to_vec()),
        ("BOM before comment", b"\xef\xbb\xbf# c\nv 1 2 3\n".to_vec()),
        ("plus index", format!("{tri}f +1 +2 +3\n").into_bytes()),
        ("negative index", format!("{tri}f -1 -2 -3\n").into_bytes()),
        ("trailing slash", format!("{tri}f 1/ 2/ 3/\n").into_bytes()),
        ("double trailing slash", format!("{tri}f 1// 2// 3//\n").into_bytes()),
        ("four components", format!("{tri}vt 0 0\nvn 0 0 1\nf 1/1/1/9 2/1/1/x 3/1/1/\n").into_bytes()),
        ("inf/nan", b"v inf -Infinity NaN\n".to_vec()),
        ("plus sign, bare dot", b"v +1 .5 5.\n".to_vec()),
        ("hex/underscore", b"v 0x10 1_0 1\n".to_vec()),
        ("group line", b"g foo\nv 1 2 3\n".to_vec()),
        ("object line", b"o foo\nv 1 2 3\n".to_vec()),
        ("smoothing", b"s off\nv 1 2 3\n".to_vec()),
        ("usemtl", b"usemtl m\nv 1 2 3\n".to_vec()),
        ("mtllib", b"mtllib a.mtl\nv 1 2 3\n".to_vec()),
        ("vp", b"vp 1 2 3\nv 1 2 3\n".to_vec()),
        ("line l", b"v 1 2 3\nl 1 1\n".to_vec()),
        ("continuation", b"v 1 2 \\\n3\n".to_vec()),
        ("uppercase V", b"V 1 2 3\n".to_vec()),
        ("NUL byte", b"v 1 2 3\x00\n".to_vec()),
        ("unused dangling vt with no faces", b"v 1 2 3\n".to_vec()),
        ("face dangling vt", format!("{tri}f 1/1 2/1 3/1\n").into_bytes()),
        ("face dangling vn", format!("{tri}f 1//1 2//1 3//1\n").into_bytes()),
        ("zero vt index", format!("{tri}vt 0 0\nf 1/0 2/1 3/1\n").into_bytes()),
        ("zero vn index", format!("{tri}vn 0 0 1\nf 1//0 2//1 3//1\n").into_bytes()),
        ("huge index", format!("{tri}f 18446744073709551615 1 1\n").into_bytes()),
        ("overflow index", format!("{tri}f 18446744073709551616 1 1\n").into_bytes()),
        ("overflow vt index", format!("{tri}vt 0 0\nf 1/18446744073709551616 1 1\n").into_bytes()),
        ("huge vt index", format!("{tri}vt 0 0\nf 1/18446744073709551615 1 1\n").into_bytes()),
        ("face only", b"f 1 2 3\n".to_vec()),
        ("face only 0", b"f 0 0 0\n".to_vec()),
    ];
    for (name, text) in cases {
        println!("{name:32} {:?}\n    -> {}", String::from_utf8_lossy(&text), describe(&text));
    }
}

// ---------------------------------------------------------------------
// Misbehaving-but-legal readers
// ---------------------------------------------------------------------

#[derive(Clone, Copy, Debug, PartialEq)]
enum Ev {
    Data(usize),
    Interrupted,
    Fail,
    Eof,
}

struct Scripted {
    data: Vec<u8>,
    pos: usize,
    script: Vec<Ev>,
    step: usize,
    /// position at the first Ok(0) (premature or real)
    first_eof_at: Option<usize>,
    fail_after_end: bool,
    polls_after_eof: usize,
}

impl Read for Scripted {
    fn read(&mut self, buf: &mut [u8]) -> std::io::Result<usize> {
        if buf.is_empty() {
            return Ok(0);
        }
        if self.first_eof_at.is_some() {
            self.polls_after_eof += 1;
        }
        let ev = self.script.get(self.step).copied().unwrap_or(Ev::Data(usize::MAX));
        self.step += 1;
        match ev {
            Ev::Interrupted => Err(std::io::ErrorKind::Interrupted.into()),
            Ev::Fail => Err(std::io::Error::new(std::io::ErrorKind::Other, "scripted")),
            Ev::Eof => {
                self.first_eof_at.get_or_insert(self.pos);
                Ok(0)
            }
            Ev::Data(n) => {
                let left = self.data.len() - self.pos;
                if left == 0 {
                    if self.first_eof_at.is_some() && self.fail_after_end {
                        return Err(std::io::Error::new(std::io::ErrorKind::Other, "after end"));
                    }
                    self.first_eof_at.get_or_insert(self.pos);
                    return Ok(0);
                }
                let n = n.max(1).min(left).min(buf.len());
                buf[..n].copy_from_slice(&self.data[self.pos..self.pos + n]);
                self.pos += n;
                Ok(n)
            }
        }
    }
}

#[test]
fn scripted_readers() {
    let mut rng = Rng(0x10_0001);
    let mut oks = 0usize;
    let mut errs = 0usize;
    let mut prefix_oks = 0usize;
    for i in 0..30000 {
        let o = GenOpts { max_verts: 8, max_faces: 6, mix_forms_in_face: i % 2 == 0 };
        let file = gen_file(&mut rng, &o);
        let whole = ref_parse(&file).unwrap();
        let mut script = vec![];
        let mut has_fail = false;
        for _ in 0..rng.below(30) {
            script.push(match rng.below(12) {
                0 => Ev::Interrupted,
                1 if rng.chance(1, 2) => {
                    has_fail = true;
                    Ev::Fail
                }
                2 if rng.chance(1, 2) => Ev::Eof,
                _ => Ev::Data(1 + rng.below(9) as usize),
            });
        }
        let mut src = Scripted {
            data: file.clone(),
            pos: 0,
            script,
            step: 0,
            first_eof_at: None,
            fail_after_end: rng.chance(1, 2),
            polls_after_eof: 0,
        };
        let wrap = rng.below(6);
        let cap = 1 + rng.below(16) as usize;
        let res = match wrap {
            0 => read_obj(&mut src),
            1 => read_obj(BufReader::with_capacity(cap, &mut src)),
            2 => {
                let mut br = BufReader::with_capacity(cap, &mut src);
                read_obj(&mut br)
            }
            3 => read_obj((&mut src).take(u64::MAX)),
            4 => read_obj((&b""[..]).chain(&mut src)),
            _ => read_obj(BufReader::with_capacity(cap, (&mut src).chain(&b""[..]))),
        };
        let got = lib_mesh(res);
        match got {
            Err(_) => errs += 1,
            Ok(m) => {
                oks += 1;
                let cut = src.first_eof_at.expect("Ok without ever seeing end of file");
                let prefix = &file[..cut];
                // what the delivered prefix says, according to the library's own pure parser
                // and, when the prefix is well-formed, according to the reference
                let by_prefix = lib_mesh(parse_obj(prefix.iter().copied()));
                let okay = m == whole || by_prefix.as_ref() == Ok(&m);
                if cut < file.len() && by_prefix.as_ref() == Ok(&m) && m != whole {
                    prefix_oks += 1;
                }
                if let Ok(r) = ref_parse(prefix) {
                    assert!(m == whole || m == r, "case {i}: differs from reference on prefix");
                }
                assert!(okay, "case {i} wrap {wrap}: hybrid mesh {m:?}\nfile {:?}\ncut {cut}", excerpt(&file));
                if !has_fail {
                    // no error was ever injected before the end: nothing to complain about
                }
            }
        }
        let _ = src.polls_after_eof;
    }
    println!("oks {oks} errs {errs} prefix_oks {prefix_oks}");
    assert!(oks > 1000 && errs > 1000);
}

#[test]
fn load_obj_odd_paths() {
    let dir = std::env::temp_dir();
    assert!(load_obj(dir.join("hunt-h5-definitely-missing.obj")).is_err());
    assert!(load_obj(&dir).is_err(), "a directory is not an OBJ file");
    let m = load_obj("/dev/null").unwrap().build();
    assert!(m.verts.is_empty() && m.faces.is_empty());
}

/// Characterisation of borderline behaviour (inputs outside the well-formed subset as
/// worded in the property, so not counted as violations): these assertions describe
/// what the library does today.
#[test]
fn borderline_recorded() {
    let base = "v 0 0 0\nv 1 0 0\nv 0 1 0\nv 1 1 0\nv 2 2 2\n";
    // B1: polygons -- which the module documentation lists as valid input ("Faces can have
    // more than three indices: f 1 2 3 4 5") -- are silently cut down to their first three
    // corners; the extra corners are not even validated.
    for tail in ["f 1 2 3 4\n", "f 1 2 3 4 5\n", "f 1 2 3 99\n", "f 1 2 3 xyz\n", "f 1 2 3 0\n", "f 1 2 3 -1\n"] {
        let m = lib_mesh(parse_obj(format!("{base}{tail}").bytes())).unwrap();
        assert_eq!(m.faces, vec![[0, 1, 2]], "{tail}");
        assert_eq!(m.verts.len(), 5);
    }
    // B2: CR-only line ends: everything after the first item of the file is silently dropped
    let m = lib_mesh(parse_obj(*b"v 1 2 3\rv 4 5 6\rf 1 2 1\r")).unwrap();
    assert_eq!((m.verts.len(), m.faces.len()), (1, 0));
    let m = lib_mesh(parse_obj(*b"# c\rv 4 5 6\rf 1 1 1\r")).unwrap();
    assert_eq!((m.verts.len(), m.faces.len()), (0, 0));
    // CRLF is read correctly
    let m = lib_mesh(parse_obj(*b"v 1 2 3\r\nv 4 5 6\r\nf 1 2 1\r\n# c\r\n\r\n")).unwrap();
    assert_eq!(m, ref_parse(b"v 1 2 3\nv 4 5 6\nf 1 2 1\n# c\n\n").unwrap());
    // B3: anything after the expected fields is ignored (w coordinate, junk, trailing comment)
    for t in ["v 1 2 3 4\n", "v 1 2 3 junk\n", "v 1 2 3 # c\n", "vt 1 2 3 4\nv 1 2 3\n"] {
        assert_eq!(lib_mesh(parse_obj(t.bytes())).unwrap().verts.len(), 1, "{t}");
    }
    // B4: lenient numerals: inf / nan words, '+' on indices, "1/" corners, components past the third
    let m = lib_mesh(parse_obj(*b"v inf -Infinity NaN\n")).unwrap();
    assert_eq!(m.verts[0][0], f32::INFINITY.to_bits());
    assert!(f32::from_bits(m.verts[0][2]).is_nan());
    assert!(parse_obj(format!("{base}f +1 +2 +3\n").bytes()).is_ok());
    assert!(parse_obj(format!("{base}f 1/ 2/ 3/\n").bytes()).is_ok());
    assert!(parse_obj(format!("{base}vt 0 0\nvn 0 0 1\nf 1/1/1/9 2/1/1/x 3/1/1/\n").bytes()).is_ok());
    // B5: rejected although common in real files
    for t in ["g a\n", "o a\n", "s off\n", "usemtl m\n", "mtllib a.mtl\n", "\u{feff}v 1 2 3\n", "v 1 2 3#c\n"] {
        assert!(parse_obj(t.bytes()).is_err(), "{t}");
    }
    assert!(parse_obj(format!("{base}f -1 -2 -3\n").bytes()).is_err());
}
