#!/bin/bash
# Runs the registered quick check of each seeded change's property against it
# (apply to /repo, check, undo) and prints one line per change.
cd /verif
for d in seeded/*/; do
  id=$(basename $d); prop=$(python3 -c "import json;print(json.load(open('$d/meta.json'))['property'])")
  st=$(python3 -c "import json;print(json.load(open('$d/meta.json')).get('status','expected-detected'))")
  out=$(tools/run_against.sh $d/patch.diff $prop ${1:-quick}); rc=$(echo "$out" | grep -o 'exit=[0-9]*')
  nviol=$(echo "$out" | grep -o 'violations=[0-9]*' | head -1)
  classes=$(echo "$out" | grep -E '^violation' | sed -E 's/^violation oracle=([A-Z]) class=([^ ]*) .*/\1:\2/' | tr '\n' ' ')
  echo "$id $prop $st $rc $nviol $classes"
done
