//! C13 — PNM codec: lossless round trip and total decoding, under every legal
//! behaviour of the `Write` and `Read` the codec is handed and every storage fault
//! the file may meet in between.

use std::io::{self, Read, Write};

use re::math::{rgb, Color3};
use re::util::buf::{Buf2, Slice2};
use re::util::pnm::{parse_pnm, read_pnm, write_ppm};

use crate::core::*;
use crate::gen::*;
pub use crate::pnm_model::*;
use crate::rng::Rng;
use crate::seams::*;

#[derive(Clone, Debug, PartialEq, Eq)]
pub enum PnmOut {
    Ok { w: u32, h: u32, px: Vec<[u8; 3]> },
    Err(String),
}

impl PnmOut {
    fn brief(&self) -> String {
        match self {
            PnmOut::Ok { w, h, px } => format!(
                "Ok({w}x{h}, {} px {:?}{})",
                px.len(),
                &px[..px.len().min(4)],
                if px.len() > 4 { "…" } else { "" }
            ),
            PnmOut::Err(e) => format!("Err({e})"),
        }
    }
}

// ---------------------------------------------------------------------------
// Workload generation
// ---------------------------------------------------------------------------

fn gen_pix(rng: &mut Rng) -> Pix {
    match rng.below(12) {
        10 | 11 => Pix::Runs(rng.u64()),
        0..=4 => Pix::Seeded(rng.u64()),
        5 => Pix::Const(*rng.pick(&[0u8, 255, b' ', b'\n', b'#', b'0', b'P', 128])),
        _ => {
            // adversarial: bytes that look like header syntax, right after the header and at row ends
            const ADV: [u8; 16] = [b' ', b'\n', b'\t', b'\r', b'#', b'0', b'1', b'9', b'P', b'6', 0x0b, 0x0c, 0, 255, b'-', b'+'];
            let n = rng.usize(1, 12);
            Pix::Pattern((0..n).map(|_| if rng.chance(3, 4) { *rng.pick(&ADV) } else { rng.byte() }).collect())
        }
    }
}

fn gen_dims(rng: &mut Rng) -> (u32, u32) {
    match rng.below(20) {
        0 => (1, rng.range(1, 400) as u32),
        1 => (rng.range(1, 400) as u32, 1),
        // crossing the 8 KiB default buffer capacity: 3*w*h > 8192
        2 | 3 => (rng.range(40, 80) as u32, rng.range(40, 80) as u32),
        // four-digit dimensions, a few rows or columns
        4 if rng.chance(1, 2) => {
            let (a, b) = (rng.range(1000, 3000) as u32, rng.range(1, 3) as u32);
            if rng.chance(1, 2) { (a, b) } else { (b, a) }
        }
        _ => (rng.small(48) as u32 + 1, rng.small(48) as u32 + 1),
    }
}

fn gen_rect(rng: &mut Rng, bw: u32, bh: u32, allow_empty: bool) -> RectU {
    let x = rng.below(bw as u64 + 1) as u32;
    let y = rng.below(bh as u64 + 1) as u32;
    let mut w = rng.below((bw - x) as u64 + 1) as u32;
    let mut h = rng.below((bh - y) as u64 + 1) as u32;
    if !allow_empty {
        if w == 0 || h == 0 {
            return RectU { x: 0, y: 0, w: bw, h: bh };
        }
    } else if rng.chance(1, 2) {
        // make sure empties do occur: zero width or zero height, sometimes both
        match rng.below(3) {
            0 => w = 0,
            1 => h = 0,
            _ => {
                w = 0;
                h = 0
            }
        }
    }
    RectU { x, y, w, h }
}

fn gen_lib(rng: &mut Rng) -> LibImage {
    let (bw, bh) = gen_dims(rng);
    let pixels = gen_pix(rng);
    let empties = rng.chance(1, 12);
    let view = match rng.below(12) {
        0 | 1 => View::Owned,
        2 | 3 => View::Ref,
        4..=6 => View::Slice(gen_rect(rng, bw, bh, empties)),
        7 | 8 => {
            let o = gen_rect(rng, bw, bh, false);
            View::Nested(o, gen_rect(rng, o.w, o.h, empties))
        }
        9 => View::MutSlice(gen_rect(rng, bw, bh, empties)),
        _ => {
            let len = bw * bh;
            let w = rng.range(1, bw as u64) as u32;
            let smax = (bw + 3).min(len).max(w);
            let stride = rng.range(w as u64, smax as u64) as u32;
            let max_h = (len - w) / stride + 1;
            let h = if rng.chance(1, 16) { 0 } else { rng.range(1, max_h as u64) as u32 };
            let need = if h == 0 { 0 } else { (h - 1) * stride + w };
            let offset = rng.below((len - need) as u64 + 1) as u32;
            View::SliceNew { w, h, stride, offset }
        }
    };
    if rng.chance(1, 40) {
        // degenerate owned buffers
        let (bw, bh) = *rng.pick(&[(0u32, 0u32), (0, 3), (3, 0), (1, 1), (12_345_678, 0), (0, 87_654_321), (99_999, 0), (0, 4_294_967_295), (4_294_967_295, 0), (1_000_000, 0)]);
        return LibImage { bw, bh, pixels, view: if rng.chance(1, 2) { View::Owned } else { View::Ref } };
    }
    LibImage { bw, bh, pixels, view }
}

fn gen_sep(rng: &mut Rng, comments: bool) -> Vec<u8> {
    const WS: [u8; 4] = [b' ', b'\t', b'\r', b'\n'];
    let mut s = vec![];
    if rng.chance(1, 2) {
        s.push(b' ');
        if !comments || rng.chance(3, 4) {
            return s;
        }
    }
    let n = if rng.chance(1, 40) { rng.usize(100, 5000) } else { rng.usize(if s.is_empty() { 1 } else { 0 }, 4) };
    for _ in 0..n {
        s.push(*rng.pick(&WS));
    }
    if comments && rng.chance(1, 2) {
        let k = rng.usize(1, 3);
        for _ in 0..k {
            if s.is_empty() || !matches!(s.last(), Some(b' ' | b'\t' | b'\r' | b'\n')) {
                s.push(*rng.pick(&WS));
            }
            s.push(b'#');
            if rng.chance(1, 60) {
                // tens of thousands of comment lines in a row: whatever skips them had
                // better not recurse
                let n = rng.usize(30_000, 60_000);
                for _ in 0..n {
                    s.extend_from_slice(b"#\n");
                }
                continue;
            }
            if rng.chance(1, 12) {
                // a comment longer than any line or chunk buffer a decoder might use
                let n = *rng.pick(&[200usize, 300, 1100, 4200, 9000]);
                s.extend((0..n).map(|i| b"comment 255 # "[i % 14]));
                s.push(b'\n');
                continue;
            }
            let body: &[u8] = *rng.pick(&[
                &b""[..],
                b" comment",
                b"comment",
                b" 42 7 255",
                b" P6 1 1 255",
                b"# #",
                b"\t12",
                b" \r",
                b"-1",
                b" created by harness",
                b" a\rb",
                b"1\r2 3",
                b" C:\\images\\",
                b"\\",
            ]);
            s.extend_from_slice(body);
            s.push(b'\n');
            for _ in 0..rng.usize(0, 2) {
                s.push(*rng.pick(&WS));
            }
        }
    }
    s
}

fn gen_foreign(rng: &mut Rng) -> Foreign {
    let fmt = *rng.pick(&[2u8, 3, 5, 6, 3, 6]);
    let (w, h) = {
        let (w, h) = gen_dims(rng);
        // text formats are ~4x larger: keep them moderate
        if fmt <= 3 {
            (w.min(60), h.min(60))
        } else {
            (w, h)
        }
    };
    let max = if rng.chance(3, 4) { 255 } else { *rng.pick(&[1u32, 2, 7, 15, 100, 127, 128, 254, 255]) };
    let comments = rng.chance(1, 2);
    const WS: [u8; 4] = [b' ', b'\t', b'\r', b'\n'];
    let n_seps = rng.usize(1, 5);
    let wide = rng.chance(1, 25);
    let sample_seps = (0..n_seps)
        .map(|_| {
            if wide && rng.chance(1, 3) {
                // runs of whitespace longer than any token buffer a decoder might use
                (0..rng.usize(20, 400)).map(|_| *rng.pick(&WS) as char).collect()
            } else if rng.chance(1, 2) {
                " ".to_string()
            } else {
                (0..rng.usize(1, 4)).map(|_| *rng.pick(&WS) as char).collect()
            }
        })
        .collect();
    Foreign {
        fmt,
        w,
        h,
        max,
        pixels: gen_pix(rng),
        sep0: gen_sep(rng, comments),
        sep1: gen_sep(rng, comments),
        sep2: gen_sep(rng, comments),
        pre_raster: if rng.chance(1, 2) { b'\n' } else { *rng.pick(&WS) },
        sample_seps,
        trailing: if rng.chance(1, 2) { String::new() } else { (0..rng.usize(1, 3)).map(|_| *rng.pick(&WS) as char).collect() },
        zero_pad: if rng.chance(1, 8) { (0..rng.usize(1, 4)).map(|_| *rng.pick(&[0u8, 0, 2, 3, 4, 9, 10, 11, 12, 16, 17, 21, 33, 64, 65])).collect() } else { vec![] },
    }
}

/// Headers of images whose body is absent or far too short: what a crash early in a
/// long write leaves behind, plus the degenerate dimensions.
fn gen_odd_header(rng: &mut Rng) -> Vec<u8> {
    const DIMS: [u64; 20] = [
        0, 1, 2, 3, 255, 256, 65535, 65536, 65537, 46341, 92682, 1 << 20, 1 << 24, (1 << 31) - 1, 1 << 31, (1u64 << 32) - 1,
        1 << 32, 3_000_000_000, 4_294_967_297, 99_999_999_999,
    ];
    let fmt = *rng.pick(&[2u8, 3, 4, 5, 6, 6, 5]);
    let w = if rng.chance(1, 5) { rng.small(5) } else { *rng.pick(&DIMS) };
    let h = if rng.chance(1, 5) { rng.small(5) } else { *rng.pick(&DIMS) };
    let max = *rng.pick(&[255u64, 255, 255, 0, 1, 65535, 65536, 256]);
    let mut b = if fmt == 4 { format!("P4 {w} {h}\n").into_bytes() } else { format!("P{fmt} {w} {h} {max}\n").into_bytes() };
    let body = rng.small(600) as usize;
    if fmt <= 3 {
        for _ in 0..body / 3 {
            let top = if rng.chance(1, 10) { 400 } else { 256 };
            b.extend_from_slice(format!("{} ", rng.below(top)).as_bytes());
        }
    } else {
        b.extend((0..body).map(|_| rng.byte()));
    }
    b
}

/// Canonical size of what `write_ppm` is expected to emit for an image.
fn p6_len(w: u32, h: u32) -> usize {
    format!("P6 {w} {h} 255\n").len() + 3 * (w as usize) * (h as usize)
}

/// Jumbo scenario: an image with a dimension above 65 535 (or 300x300), written by the
/// real encoder through a benign sink and read back through a benign source.
pub fn gen_jumbo(seed: u64) -> (PnmScenario, &'static str, Option<String>) {
    let mut rng = Rng::new(seed);
    if rng.chance(1, 3) {
        // a large file in one of the other spellings, read through a benign source
        let (fmt, w, h) = *rng.pick(&[(5u8, 1200u32, 900u32), (5, 70_000, 1), (6, 600, 600), (3, 400, 300), (2, 70_000, 1), (2, 300, 800), (3, 1, 66_000)]);
        let f = Foreign {
            fmt, w, h, max: 255, pixels: Pix::Seeded(rng.u64()),
            sep0: b" ".to_vec(), sep1: b" ".to_vec(), sep2: b"\n".to_vec(),
            pre_raster: b'\n', sample_seps: vec![" ".into(), "\n".into(), "  ".into()], trailing: "\n".into(), zero_pad: vec![],
        };
        let len = f.render().len();
        let mut reader = gen_reader_benign(&mut rng, len);
        if reader.chunks.iter().all(|&c| c != 0 && c < 64) {
            reader.chunks = vec![4096, 1000, 0, 7];
        }
        if let RStack::Buf { cap, .. } | RStack::ChainBuf { cap, .. } = &mut reader.stack {
            *cap = (*cap).max(512);
        }
        return (PnmScenario { work: PnmWork::Foreign(f), writer: WriterCfg::plain(), disk: vec![], reader, via_path: false }, "search:jumbo", None);
    }
    let (bw, bh) = match rng.below(5) {
        // a dimension beyond 16 bits
        0 => *rng.pick(&[(65_537u32, 1u32), (1, 65_540), (70_001, 2), (3, 66_000), (65_536, 2)]),
        // rows wider than any plausible row buffer, more than one of them
        1 | 2 => (rng.range(4097, 70_000) as u32, rng.range(2, 4) as u32),
        // many pixels: 2^18 .. 2^20 and a little beyond
        3 => (rng.range(500, 1100) as u32, rng.range(500, 1100) as u32),
        _ => *rng.pick(&[(1025u32, 1024u32), (300, 300), (4096, 3), (8192, 2), (256, 256), (1024, 1024), (2400, 2400)]),
    };
    let li = LibImage { bw, bh, pixels: Pix::Seeded(rng.u64()), view: if rng.chance(1, 2) { View::Ref } else { View::Slice(RectU { x: 0, y: 0, w: bw, h: bh }) } };
    let len = p6_len(bw, bh);
    let mut writer = gen_writer_benign(&mut rng, len);
    let mut reader = gen_reader_benign(&mut rng, len);
    if writer.chunks.iter().all(|&c| c != 0 && c < 64) {
        writer.chunks = vec![4096, 1000, 0, 7];
    }
    if reader.chunks.iter().all(|&c| c != 0 && c < 64) {
        reader.chunks = vec![4096, 1000, 0, 7];
    }
    if let WStack::Buf { cap, .. } = &mut writer.stack {
        *cap = (*cap).max(512);
    }
    if let RStack::Buf { cap, .. } | RStack::ChainBuf { cap, .. } = &mut reader.stack {
        *cap = (*cap).max(512);
    }
    (PnmScenario { work: PnmWork::Lib(li), writer, disk: vec![], reader, via_path: false }, "search:jumbo", None)
}

pub fn gen_scenario(seed: u64) -> (PnmScenario, &'static str, Option<String>) {
    let mut rng = Rng::new(seed);
    let mode = rng.below(100);
    let mut self_check = None;
    // ---- workload -----------------------------------------------------------------
    let (work, len, hot, spans, base_kind): (PnmWork, usize, Vec<usize>, Vec<(usize, usize)>, &'static str) = if mode < 45 {
        let li = gen_lib(&mut rng);
        let (w, h, _) = li.expected();
        let hl = format!("P6 {w} {h} 255\n").len();
        let len = p6_len(w, h);
        let mut hot = vec![0, 1, 2, 3, hl - 1, hl, hl + 1, hl + 2, hl + 3, len];
        let row = 3 * w as usize;
        let spans: Vec<(usize, usize)> = (0..h as usize).take(64).map(|y| (hl + y * row, row)).collect();
        hot.extend(spans.iter().map(|s| s.0));
        (PnmWork::Lib(li), len, hot, spans, "lib")
    } else if mode < 88 {
        let f = gen_foreign(&mut rng);
        let bytes = f.render();
        let hl = f.header_len();
        // Harness self-check: the reference must read a harness-written file back.
        let r = ref_pnm(&bytes);
        let want = f.samples();
        let ok = match (&r.header, &r.body) {
            (Some(hd), RefBody::Rgb(px)) => {
                (hd.fmt, hd.w, hd.h, hd.max, hd.raster) == (f.fmt, f.w, f.h, f.max, hl) && px.iter().flatten().copied().eq(want.iter().copied())
            }
            (Some(hd), RefBody::Grey(g)) => (hd.fmt, hd.w, hd.h, hd.max, hd.raster) == (f.fmt, f.w, f.h, f.max, hl) && *g == want,
            _ => false,
        };
        if !ok {
            self_check = Some(format!("reference disagrees with foreign writer: {:?} {:?}", r.header, match r.body {
                RefBody::Unsure(s) | RefBody::Short(s) => s,
                _ => "body mismatch",
            }));
        }
        let len = bytes.len();
        let mut hot = vec![0, 1, 2, 3, hl - 1, hl, hl + 1, len];
        hot.extend([2 + f.sep0.len(), 2 + f.sep0.len() + f.w.to_string().len()]);
        let spans = if f.is_text() {
            vec![]
        } else {
            let row = f.w as usize * if f.is_grey() { 1 } else { 3 };
            (0..f.h as usize).take(64).map(|y| (hl + y * row, row)).collect()
        };
        (PnmWork::Foreign(f), len, hot, spans, "foreign")
    } else {
        let bytes = gen_odd_header(&mut rng);
        let len = bytes.len();
        let hl = bytes.iter().position(|&b| b == b'\n').unwrap_or(0) + 1;
        (PnmWork::Raw { bytes }, len, vec![0, 2, 3, hl - 1, hl, len], vec![], "odd-header")
    };

    // ---- environment --------------------------------------------------------------
    let mut writer = if base_kind == "lib" { gen_writer_benign(&mut rng, len) } else { WriterCfg::plain() };
    let mut reader = gen_reader_benign(&mut rng, len);
    let mut disk = vec![];
    let destructive = rng.chance(2, 5);
    let kind: &'static str = match (base_kind, destructive) {
        ("lib", false) => "search:lib-writer/benign",
        ("lib", true) => "search:lib-writer/destructive",
        ("foreign", false) => "search:foreign-writer/benign",
        ("foreign", true) => "search:foreign-writer/destructive",
        (_, false) => "search:odd-header/benign",
        (_, true) => "search:odd-header/destructive",
    };
    if destructive {
        let which = rng.below(10);
        if base_kind == "lib" && which < 3 {
            add_writer_fault(&mut rng, &mut writer, len, &hot);
        } else if which < 7 {
            disk = gen_disk_faults(&mut rng, len, &hot, &spans, base_kind == "lib");
        }
        if which >= 6 {
            add_reader_fault(&mut rng, &mut reader, len, &hot);
        }
    }
    let via_path = rng.chance(1, 40);
    (PnmScenario { work, writer, disk, reader, via_path }, kind, self_check)
}

// ---------------------------------------------------------------------------
// Execution
// ---------------------------------------------------------------------------

struct ReadPnm;
impl ReadConsumer for ReadPnm {
    type Out = re::util::pnm::Result<Buf2<Color3>>;
    fn consume<R: Read>(self, r: R) -> Self::Out {
        read_pnm(r)
    }
    fn consume_path(self, path: &std::path::Path) -> Self::Out {
        re::util::pnm::load_pnm(path)
    }
}

enum WriteRes {
    /// The view could not even be constructed (a `Buf2`/`Slice2` constructor panicked):
    /// there is no image to write, so nothing is judged.
    NoImage(Caught),
    Done(io::Result<()>),
}

/// With a path, the image goes through `save_ppm` to the real file system instead of
/// through `write_ppm` to the given writer.
struct WritePpm<'a>(&'a LibImage, Option<&'a std::path::Path>);

fn put<W: Write, V: re::util::buf::AsSlice2<Color3>>(out: W, path: Option<&std::path::Path>, v: V) -> io::Result<()> {
    match path {
        None => write_ppm(out, v),
        Some(p) => re::util::pnm::save_ppm(p, v),
    }
}

impl WriteConsumer for WritePpm<'_> {
    type Out = WriteRes;
    fn consume_path(self, path: &std::path::Path) -> WriteRes {
        WritePpm(self.0, Some(path)).consume(io::sink())
    }
    fn consume<W: Write>(self, out: W) -> WriteRes {
        let li = self.0;
        let path = self.1;
        let n = (li.bw * li.bh) as usize;
        let data = pix_bytes(&li.pixels, 3 * n);
        let colors: Vec<Color3> = data.chunks_exact(3).map(|c| rgb(c[0], c[1], c[2])).collect();
        let rect = |r: RectU| (r.x..r.x + r.w, r.y..r.y + r.h);
        // Building the buffer is the caller's business, not the codec's.
        let buf = match li.view {
            View::SliceNew { .. } => None,
            _ => match catch(|| Buf2::new_from((li.bw, li.bh), colors.clone())) {
                Ok(b) => Some(b),
                Err(c) => return WriteRes::NoImage(c),
            },
        };
        match li.view {
            View::Owned => WriteRes::Done(put(out, path, buf.unwrap())),
            View::Ref => WriteRes::Done(put(out, path, buf.as_ref().unwrap())),
            View::Slice(r) => {
                let b = buf.as_ref().unwrap();
                match catch(|| b.slice(rect(r))) {
                    Ok(s) => WriteRes::Done(put(out, path, s)),
                    Err(c) => WriteRes::NoImage(c),
                }
            }
            View::Nested(o, i) => {
                let b = buf.as_ref().unwrap();
                match catch(|| b.slice(rect(o))) {
                    Ok(so) => match catch(|| so.slice(rect(i))) {
                        Ok(s) => WriteRes::Done(put(out, path, s)),
                        Err(c) => WriteRes::NoImage(c),
                    },
                    Err(c) => WriteRes::NoImage(c),
                }
            }
            View::MutSlice(r) => {
                let mut b = buf.unwrap();
                // slice_mut borrows mutably for the duration; build it outside `catch`
                // only after an immutable probe shows the rect is constructible
                if let Err(c) = catch(|| {
                    b.slice(rect(r));
                }) {
                    return WriteRes::NoImage(c);
                }
                let s = b.slice_mut(rect(r));
                WriteRes::Done(put(out, path, s))
            }
            View::SliceNew { w, h, stride, offset } => {
                let d = &colors[offset as usize..];
                match catch(|| Slice2::new((w, h), stride, d)) {
                    Ok(s) => WriteRes::Done(put(out, path, s)),
                    Err(c) => WriteRes::NoImage(c),
                }
            }
        }
    }
}

fn observe(res: re::util::pnm::Result<Buf2<Color3>>, who: &str, hdr: &Option<RefHeader>, rr: &mut RunResult) -> PnmOut {
    match res {
        Err(e) => PnmOut::Err(format!("{e:?}")),
        Ok(img) => {
            let (w, h) = img.dims();
            // pixels as a user reads them: row by row through the view API ...
            let px: Vec<[u8; 3]> = match catch(|| img.iter().map(|c| c.0).collect::<Vec<_>>()) {
                Ok(p) => p,
                Err(c) => {
                    rr.violate(Violation::new("S", format!("unreadable-image-{}", c.class()), format!("{who}: iterating the returned {w}x{h} image {}", c.detail())));
                    img.data().iter().map(|c| c.0).collect()
                }
            };
            // S: pixel count is the product of the dimensions — both as iterated and as stored
            let count_ok = px.len() as u64 == w as u64 * h as u64 && img.data().len() == px.len();
            // ... and the dimensions are the header's
            let dims_ok = hdr.as_ref().map_or(true, |hd| (hd.w, hd.h) == (w, h));
            rr.oracle("S", count_ok && dims_ok);
            if !count_ok {
                rr.violate(Violation::new("S", "pixel-count", format!("{who}: image says {w}x{h} but yields {} pixels and stores {}", px.len(), img.data().len())));
            } else if !dims_ok {
                let hd = hdr.as_ref().unwrap();
                rr.violate(Violation::new("S", "dims-differ-from-header", format!("{who}: header says {}x{}, image is {w}x{h}", hd.w, hd.h)));
            }
            PnmOut::Ok { w, h, px }
        }
    }
}

fn diff(a: &PnmOut, b: &PnmOut) -> &'static str {
    match (a, b) {
        (PnmOut::Ok { w, h, px }, PnmOut::Ok { w: w2, h: h2, px: p2 }) => {
            if (w, h) != (w2, h2) {
                "dims"
            } else if px != p2 {
                "pixels"
            } else {
                "equal"
            }
        }
        (PnmOut::Err(_), PnmOut::Ok { .. }) => "err-vs-ok",
        (PnmOut::Ok { .. }, PnmOut::Err(_)) => "ok-vs-err",
        (PnmOut::Err(x), PnmOut::Err(y)) => {
            // which error is not part of either property: "or an error"
            let _ = (x, y);
            "equal"
        }
    }
}

fn decode_plain(bytes: &[u8]) -> Result<re::util::pnm::Result<Buf2<Color3>>, Caught> {
    catch(|| parse_pnm(bytes.iter().copied()))
}

pub fn run(scn: &PnmScenario, record: bool) -> RunResult {
    let mut rr = RunResult::default();
    let log = Log::new(record);

    // =============================== write side ===================================
    let mut bytes: Vec<u8>;
    match &scn.work {
        PnmWork::Lib(li) => {
            let (w, h, px) = li.expected();
            let (sink, core) = SimSink::new(&scn.writer, p6_len(w, h) + 3 * (li.bw * li.bh) as usize, log.clone());
            let res = catch(|| drive_writer(scn.writer.stack, sink, WritePpm(li, None)));
            // only what was flushed is on the disk; what the sink merely accepted is lost
            {
                let mut c = core.borrow_mut();
                if c.bypassed {
                    rr.probe("path wrapper went around the File seam: real file used as the disk");
                }
                if !c.pending.is_empty() {
                    log.borrow_mut().ledger.add(K::unflushed_bytes_lost, c.pending.len() as u64);
                    rr.probe("bytes accepted by the sink but never flushed were lost");
                }
                bytes = std::mem::take(&mut c.disk);
            }
            let led = log.borrow().ledger.clone();
            match res {
                Err(c) => {
                    rr.oracle("T", false);
                    rr.violate(Violation::new("T", format!("write-{}", c.class()), format!("write_ppm of a {w}x{h} image {}", c.detail())));
                }
                Ok((WriteRes::NoImage(c), _)) if w > 0 && h > 0 => {
                    // a non-empty, in-bounds sub-view is what C13 says can be written
                    rr.oracle("T", false);
                    rr.violate(Violation::new(
                        "T",
                        format!("view-{}", c.class()),
                        format!("forming the non-empty, in-bounds {w}x{h} sub-view to be written {}", c.detail()),
                    ));
                }
                Ok((WriteRes::NoImage(_), _)) => {
                    rr.probe("empty view not constructible (Buf2/Slice2 constructor refused; not judged here)");
                }
                Ok((WriteRes::Done(wres), flush)) => {
                    rr.oracle("T", true);
                    let acked = wres.is_ok() && !matches!(flush, Some(Err(_)));
                    let hostile = led.write_destructive() > 0;
                    if w == 0 || h == 0 {
                        rr.probe("zero-area image written");
                    }
                    // std has no retrying helper for `flush`: a library that flushes itself and
                    // hands an interrupted flush on to its caller is within its rights.
                    let flush_interrupted = led.get(K::eintr_flush) > 0
                        && matches!(&wres, Err(e) if e.kind() == io::ErrorKind::Interrupted);
                    if flush_interrupted {
                        rr.probe("library's own flush was interrupted and it said so (tolerated)");
                    }
                    if !hostile && !flush_interrupted {
                        // C: a merely awkward sink must not make the write fail
                        rr.oracle("C", acked);
                        if !acked {
                            rr.violate(Violation::new(
                                "C",
                                "benign-sink-write-failed",
                                format!(
                                    "write_ppm of a {w}x{h} image failed although the sink only shortened or interrupted writes: write={:?} caller_flush={:?}",
                                    wres.as_ref().map_err(|e| e.kind()),
                                    flush
                                ),
                            ));
                        }
                    } else if !acked {
                        rr.probe("write error reported to the caller");
                    }
                    if acked && hostile {
                        rr.probe("write error fired, yet Ok was returned (A applied)");
                    }
                    if acked {
                        // A: acknowledged means stored, as this very image — whatever the
                        // sink did. A library that answers Ok after a write error it could
                        // have seen (if only by flushing the writer it was given) has lost
                        // the image silently.
                        let enc = is_p6_encoding_of(&bytes, w, h, &px);
                        let dec = decode_plain(&bytes);
                        let want = PnmOut::Ok { w, h, px: px.clone() };
                        let mut ok = enc.is_ok();
                        if let Err(e) = &enc {
                            rr.violate(Violation::new("A", "stored-bytes-not-the-image", format!("write_ppm returned Ok for a {w}x{h} image, but {e}")));
                        }
                        match dec {
                            Err(c) => {
                                ok = false;
                                rr.violate(Violation::new(
                                    "A",
                                    format!("readback-{}", c.class()),
                                    format!("reading back what write_ppm wrote for a {w}x{h} image {}", c.detail()),
                                ));
                            }
                            Ok(r) => {
                                let mut scratch = RunResult::default();
                                let got = observe(r, "readback", &None, &mut scratch);
                                let d = diff(&got, &want);
                                if d != "equal" {
                                    ok = false;
                                    rr.violate(Violation::new(
                                        "A",
                                        format!("readback-{d}"),
                                        format!("round trip of a {w}x{h} image: wrote {}, read back {}", want.brief(), got.brief()),
                                    ));
                                }
                            }
                        }
                        rr.oracle("A", ok);
                    }
                }
            }
        }
        PnmWork::Foreign(f) => {
            bytes = f.render();
            // E (spelling): the text and binary encodings of the same pixel data decode alike
            let twin = f.twin().render();
            if let (Ok(a), Ok(b)) = (decode_plain(&bytes), decode_plain(&twin)) {
                let mut scratch = RunResult::default();
                let a = observe(a, "", &None, &mut scratch);
                let b = observe(b, "", &None, &mut scratch);
                let mut d = diff(&a, &b);
                if !f.zero_pad.is_empty() && (d == "err-vs-ok" || d == "ok-vs-err") {
                    // zero-padded numerals: refusing them is defensible, and only the
                    // text spelling has numerals in its raster
                    d = "equal";
                }
                rr.oracle("E", d == "equal");
                if d != "equal" {
                    rr.violate(Violation::new(
                        "E",
                        format!("spelling-{d}"),
                        format!("P{} and P{} encodings of the same {}x{} pixel data decode differently: {} vs {}", f.fmt, f.twin().fmt, f.w, f.h, a.brief(), b.brief()),
                    ));
                }
            }
        }
        PnmWork::Raw { bytes: b } => bytes = b.clone(),
    }

    // =============================== storage =======================================
    apply_disk_faults(&mut bytes, &scn.disk, &log);

    // =============================== read side ====================================
    let refv = ref_pnm(&bytes);
    let base = decode_plain(&bytes);
    let base_out = match base {
        Ok(r) => {
            rr.oracle("T", true);
            Some(observe(r, "parse_pnm(disk bytes)", &refv.header, &mut rr))
        }
        Err(c) => {
            rr.oracle("T", false);
            rr.violate(Violation::new("T", c.class(), format!("parse_pnm(disk bytes) {}", c.detail())));
            None
        }
    };
    let (src, core) = SimSource::new(bytes.clone(), &scn.reader, log.clone());
    let streamed = catch(|| drive_reader(scn.reader.stack, src, ReadPnm));
    let delivered = core.borrow().pos;
    let ledger = log.borrow().ledger.clone();
    let (rd_err, eof_stop, eof_resumed) = (ledger.get(K::read_err) + ledger.get(K::read_err_after_eof) + ledger.get(K::open_err), ledger.get(K::early_eof), ledger.get(K::early_eof_resumed));
    let clean_stream = rd_err + eof_stop + eof_resumed == 0;
    let streamed_out = match streamed {
        Ok(r) => {
            rr.oracle("T", true);
            // the header the consumer saw is the file's only if the stream was not cut
            let hdr = if clean_stream { refv.header.clone() } else { None };
            Some(observe(r, "read_pnm(stream)", &hdr, &mut rr))
        }
        Err(c) => {
            rr.oracle("T", false);
            rr.violate(Violation::new("T", c.class(), format!("read_pnm(stream) {}", c.detail())));
            None
        }
    };

    // X: exact agreement with the reference wherever it accepts
    if let Some(out) = &base_out {
        match (&refv.header, &refv.body) {
            (Some(hd), RefBody::Rgb(px)) if hd.max != 255 => {
                // whether samples are rescaled when maxval is not 255 is not pinned by C13
                let ok = matches!(out, PnmOut::Ok { w, h, px: p } if (*w, *h) == (hd.w, hd.h) && p.len() == px.len())
                    || (refv.soft && matches!(out, PnmOut::Err(_)));
                rr.oracle("X", ok);
                if !ok {
                    rr.violate(Violation::new("X", "shape", format!("parse_pnm on a well-formed P{} file of {}x{} (maxval {}): got {}", hd.fmt, hd.w, hd.h, hd.max, out.brief())));
                }
            }
            (Some(hd), RefBody::Rgb(px)) => {
                let want = PnmOut::Ok { w: hd.w, h: hd.h, px: px.clone() };
                let mut d = diff(out, &want);
                if refv.soft && d == "err-vs-ok" {
                    rr.probe("soft acceptance: decoder refused a zero-padded / over-long but unambiguous file (tolerated)");
                    d = "equal";
                }
                rr.oracle("X", d == "equal");
                if d != "equal" {
                    rr.violate(Violation::new("X", d, format!("parse_pnm on a well-formed P{} file: got {}, reference says {}", hd.fmt, out.brief(), want.brief())));
                }
            }
            (Some(hd), RefBody::Grey(g)) => {
                // mapping grey -> RGB is not pinned by C13: dimensions and count only
                let ok = matches!(out, PnmOut::Ok { w, h, px } if (*w, *h) == (hd.w, hd.h) && px.len() == g.len())
                    || (refv.soft && matches!(out, PnmOut::Err(_)));
                rr.oracle("X", ok);
                if !ok {
                    rr.violate(Violation::new("X", "grey-shape", format!("parse_pnm on a well-formed P{} file of {}x{}: got {}", hd.fmt, hd.w, hd.h, out.brief())));
                }
            }
            _ => {}
        }
        if !matches!(refv.body, RefBody::Unsure(_) | RefBody::Short(_)) && ledger.storage_fired() > 0 {
            rr.probe("damaged file still well-formed (X applied after storage fault)");
        }
    }

    // P: a raster shorter than its header announces holds no image of those dimensions;
    // answering Ok would mean inventing pixels
    if let (RefBody::Short(why), Some(out)) = (&refv.body, &base_out) {
        let ok = matches!(out, PnmOut::Err(_));
        rr.oracle("P", ok);
        rr.probe("short raster (reference: error expected)");
        if !ok {
            let hd = refv.header.as_ref().unwrap();
            rr.violate(Violation::new(
                "P",
                "invented-pixels",
                format!("P{} file of {}x{}: {why} ({} raster bytes), yet parse_pnm answered {}", hd.fmt, hd.w, hd.h, bytes.len() - hd.raster.min(bytes.len()), out.brief()),
            ));
        }
    }

    // E (stream): chunking, interruption and adapter stacks must be invisible
    if rd_err == 0 && eof_resumed == 0 {
        if let Some(sout) = &streamed_out {
            let expect = if eof_stop > 0 {
                rr.probe("early EOF: streamed result compared with parse of the delivered prefix");
                decode_plain(&bytes[..delivered]).ok().map(|r| observe(r, "", &None, &mut RunResult::default()))
            } else {
                base_out.clone()
            };
            if let Some(want) = expect {
                let d = diff(sout, &want);
                rr.oracle("E", d == "equal");
                if d != "equal" {
                    rr.violate(Violation::new(
                        "E",
                        format!("stream-{d}"),
                        format!(
                            "read_pnm over {} differs from parse_pnm over the same {} bytes: stream gave {}, bytes gave {}",
                            rstack_name(scn.reader.stack),
                            if eof_stop > 0 { delivered } else { bytes.len() },
                            sout.brief(),
                            want.brief()
                        ),
                    ));
                }
            }
        }
    }

    // G: a premature end-of-file answer followed by more data. Stopping there is right,
    // carrying on is right, an error is fine; an image that is neither the prefix's nor
    // the whole file's is not.
    if eof_resumed > 0 && rd_err == 0 && eof_stop == 0 && !matches!(refv.body, RefBody::Unsure(_) | RefBody::Short(_)) {
        let at = core.borrow().resumed_at.unwrap_or(0);
        if let (Some(sout), Some(whole)) = (&streamed_out, &base_out) {
            let prefix = decode_plain(&bytes[..at]).ok().map(|r| observe(r, "", &None, &mut RunResult::default()));
            let ok = matches!(sout, PnmOut::Err(_)) || diff(sout, whole) == "equal" || prefix.as_ref().map_or(false, |p| diff(sout, p) == "equal");
            rr.oracle("G", ok);
            if !ok {
                rr.violate(Violation::new(
                    "G",
                    "hybrid-image-after-premature-eof",
                    format!(
                        "the source answered Ok(0) once after {at} of {} bytes of a well-formed file and then went on; read_pnm answered {}, which is neither what the first {at} bytes say ({}) nor what the whole file says ({})",
                        bytes.len(),
                        sout.brief(),
                        prefix.as_ref().map_or("a panic".into(), |p| p.brief()),
                        whole.brief()
                    ),
                ));
            }
        }
    }

    // F: a failing stream may cost the result, never falsify it. If the file on disk
    // is well-formed and the plain decode of it is right (X), then after a read error
    // the streamed decode answers with an error or with that very image.
    if rd_err > 0 && !matches!(refv.body, RefBody::Unsure(_) | RefBody::Short(_)) {
        if let (Some(b @ PnmOut::Ok { .. }), Some(sout)) = (&base_out, &streamed_out) {
            let ok = matches!(sout, PnmOut::Err(_)) || sout == b;
            rr.oracle("F", ok);
            if !ok {
                rr.violate(Violation::new(
                    "F",
                    format!("wrong-image-after-read-error:{}", diff(sout, b)),
                    format!(
                        "the source failed with an I/O error after {delivered} of {} bytes of a well-formed file, and read_pnm answered {} instead of an error (the file holds {})",
                        bytes.len(),
                        sout.brief(),
                        b.brief()
                    ),
                ));
            }
        }
    }

    // probes
    if rd_err > 0 {
        rr.probe("read error fired");
    }
    if ledger.get(K::eintr_before_eof) > 0 {
        rr.probe("EINTR immediately before EOF");
    }
    if let Some(hd) = &refv.header {
        if hd.w as u64 * hd.h as u64 >= 1 << 32 {
            rr.probe("header with w*h >= 2^32");
        }
        if hd.w == 0 && hd.h > 0 {
            rr.probe("header with zero width, non-zero height");
        }
        if hd.h == 0 && hd.w > 0 {
            rr.probe("header with zero height, non-zero width");
        }
        if let Some(&b) = bytes.get(hd.raster) {
            if hd.fmt >= 5 && (b.is_ascii_whitespace() || b == b'#' || b.is_ascii_digit()) {
                rr.probe("first raster byte looks like header syntax");
            }
        }
    }
    if let RStack::Buf { cap, .. } | RStack::ChainBuf { cap, .. } = scn.reader.stack {
        if bytes.len() > 2 * cap as usize {
            rr.probe("BufReader refilled >= 2x");
        }
    }
    if let WStack::Buf { cap, .. } = scn.writer.stack {
        if matches!(scn.work, PnmWork::Lib(_)) && bytes.len() > 2 * cap as usize {
            rr.probe("BufWriter flushed mid-image");
        }
    }
    if bytes.len() > 8192 {
        rr.probe("file larger than default buffer capacity");
    }
    if matches!(base_out, Some(PnmOut::Err(_))) {
        rr.probe("decoder returned Err");
    }
    if let PnmWork::Lib(li) = &scn.work {
        if matches!(li.view, View::Slice(_) | View::Nested(..) | View::MutSlice(_) | View::SliceNew { .. }) {
            let (w, _, _) = li.expected();
            let stride = if let View::SliceNew { stride, .. } = li.view { stride } else { li.bw };
            if stride > w {
                rr.probe("strided view written (stride > width)");
            }
        }
    }

    if scn.via_path {
        wrapper_cross_check(scn, &bytes, &base_out, &mut rr);
    }

    rr.benign_only = ledger.read_destructive() + ledger.write_destructive() + ledger.storage_fired() == 0;
    rr.log_hash = {
        let mut h = log.borrow().hash;
        h.u64(bytes.len() as u64);
        h.0
    };
    if record {
        let shown = if bytes.len() > 600 { &bytes[..600] } else { &bytes[..] };
        rr.notes.insert("disk_bytes".into(), format!("{}{}", escape_bytes(shown), if bytes.len() > 600 { "…" } else { "" }));
        rr.notes.insert("disk_len".into(), bytes.len().to_string());
        rr.notes.insert("delivered_len".into(), delivered.to_string());
        rr.notes.insert("reference".into(), format!("header={:?} body={}", refv.header, match &refv.body {
            RefBody::Rgb(p) => format!("Rgb({} px)", p.len()),
            RefBody::Grey(g) => format!("Grey({} samples)", g.len()),
            RefBody::Short(s) => format!("Short({s})"),
            RefBody::Unsure(s) => format!("Unsure({s})"),
        }));
        rr.notes.insert("parse_pnm".into(), base_out.as_ref().map_or("panicked".into(), |o| o.brief()));
        rr.notes.insert("read_pnm".into(), streamed_out.as_ref().map_or("panicked".into(), |o| o.brief()));
        rr.events = std::mem::take(&mut log.borrow_mut().events);
    }
    rr.ledger = ledger;
    rr
}

/// W: the path-based wrappers `save_ppm` / `load_pnm`, run against the real file system
/// (fault-free, not simulated), must agree with the stream functions they wrap.
fn wrapper_cross_check(scn: &PnmScenario, bytes: &[u8], base_out: &Option<PnmOut>, rr: &mut RunResult) {
    let Some(path) = crate::core::scratch_file("pnm") else {
        rr.probe("real-file cross-check skipped: no writable scratch directory");
        return;
    };
    rr.probe("path wrappers cross-checked on the real file system");
    // load_pnm(file holding the bytes on the simulated disk) == parse_pnm(those bytes)
    if let (Ok(()), Some(want)) = (std::fs::write(&path, bytes), base_out) {
        match catch(|| re::util::pnm::load_pnm(&path)) {
            Err(c) => rr.violate(Violation::new("W", format!("load-{}", c.class()), format!("load_pnm {}", c.detail()))),
            Ok(r) => {
                let got = observe(r, "", &None, &mut RunResult::default());
                let d = diff(&got, want);
                rr.oracle("W", d == "equal");
                if d != "equal" {
                    rr.violate(Violation::new("W", format!("load-{d}"), format!("load_pnm(path) gave {} but parse_pnm over the file's {} bytes gave {}", got.brief(), bytes.len(), want.brief())));
                }
            }
        }
    }
    // the same path rewritten with content of the same length must be read afresh
    if let Some(variant) = same_length_variant(bytes) {
        if let (Ok(()), Ok(w)) = (std::fs::write(&path, &variant), decode_plain(&variant)) {
            let want2 = observe(w, "", &None, &mut RunResult::default());
            match catch(|| re::util::pnm::load_pnm(&path)) {
                Err(c) => rr.violate(Violation::new("W", format!("reload-{}", c.class()), format!("load_pnm after a same-length rewrite {}", c.detail()))),
                Ok(r) => {
                    let got = observe(r, "", &None, &mut RunResult::default());
                    let d = diff(&got, &want2);
                    rr.oracle("W", d == "equal");
                    if d != "equal" {
                        rr.violate(Violation::new("W", format!("reload-{d}"), format!("the file at the same path was rewritten with different bytes of the same length; load_pnm gave {} but the file now says {}", got.brief(), want2.brief())));
                    }
                }
            }
        }
    }
    // save_ppm over a longer, older file; then the file must hold exactly this image
    if let PnmWork::Lib(li) = &scn.work {
        let (w, h, px) = li.expected();
        let _ = std::fs::write(&path, vec![b'7'; p6_len(w, h) + 4096]);
        match catch(|| WritePpm(li, Some(&path)).consume(io::sink())) {
            Err(c) => rr.violate(Violation::new("W", format!("save-{}", c.class()), format!("save_ppm of a {w}x{h} image {}", c.detail()))),
            Ok(WriteRes::NoImage(_)) => {}
            Ok(WriteRes::Done(res)) => {
                let stored = std::fs::read(&path).unwrap_or_default();
                let want = PnmOut::Ok { w, h, px: px.clone() };
                let back = catch(|| re::util::pnm::load_pnm(&path)).ok().map(|r| observe(r, "", &None, &mut RunResult::default()));
                let mut problems = vec![];
                if let Err(e) = &res {
                    problems.push(format!("save_ppm returned {e:?} on a healthy file system"));
                }
                if let Err(e) = is_p6_encoding_of(&stored, w, h, &px) {
                    problems.push(e);
                }
                if back.as_ref() != Some(&want) {
                    problems.push(format!("load_pnm read back {}", back.as_ref().map_or("a panic".into(), |b| b.brief())));
                }
                rr.oracle("W", problems.is_empty());
                if !problems.is_empty() {
                    rr.violate(Violation::new("W", "save-roundtrip", format!("save_ppm then load_pnm of a {w}x{h} image over an older, longer file: {}", problems.join("; "))));
                }
            }
        }
    }
    // a path that does not exist is an error, not a panic
    let _ = std::fs::remove_file(&path);
    match catch(|| re::util::pnm::load_pnm(&path)) {
        Ok(Err(_)) => rr.oracle("W", true),
        Ok(Ok(_)) => rr.violate(Violation::new("W", "load-missing-ok", "load_pnm of a missing file returned Ok")),
        Err(c) => rr.violate(Violation::new("W", format!("load-missing-{}", c.class()), format!("load_pnm of a missing file {}", c.detail()))),
    }
}

pub fn stacks(scn: &PnmScenario) -> Vec<String> {
    let mut v = vec![rstack_name(scn.reader.stack)];
    if let PnmWork::Lib(li) = &scn.work {
        v.push(wstack_name(scn.writer.stack));
        v.push(
            match li.view {
                View::Owned => "image:Buf2",
                View::Ref => "image:&Buf2",
                View::Slice(_) => "image:Slice2 (sub-rectangle)",
                View::Nested(..) => "image:Slice2 of Slice2",
                View::MutSlice(_) => "image:MutSlice2",
                View::SliceNew { .. } => "image:Slice2::new (stride, surplus data)",
            }
            .to_string(),
        );
    }
    v
}

// ---------------------------------------------------------------------------
// Minimisation candidates
// ---------------------------------------------------------------------------

pub fn shrink(s: &PnmScenario) -> Vec<PnmScenario> {
    let mut out = vec![];
    if s.via_path {
        out.push(PnmScenario { via_path: false, ..s.clone() });
    }
    for i in 0..s.disk.len() {
        let mut d = s.disk.clone();
        d.remove(i);
        out.push(PnmScenario { disk: d, ..s.clone() });
    }
    for r in crate::obj::shrink_reader(&s.reader) {
        out.push(PnmScenario { reader: r, ..s.clone() });
    }
    let wr = &s.writer;
    if matches!(s.work, PnmWork::Lib(_)) {
        if wr.stack != (WStack::Raw { by_ref: true }) {
            out.push(PnmScenario { writer: WriterCfg { stack: WStack::Raw { by_ref: true }, ..wr.clone() }, ..s.clone() });
        }
        if !wr.chunks.is_empty() {
            out.push(PnmScenario { writer: WriterCfg { chunks: vec![], ..wr.clone() }, ..s.clone() });
        }
        if !wr.eintr_at.is_empty() {
            out.push(PnmScenario { writer: WriterCfg { eintr_at: vec![], ..wr.clone() }, ..s.clone() });
        }
        if !wr.flush_eintr_at.is_empty() {
            out.push(PnmScenario { writer: WriterCfg { flush_eintr_at: vec![], ..wr.clone() }, ..s.clone() });
        }
        if wr.err.is_some() {
            out.push(PnmScenario { writer: WriterCfg { err: None, ..wr.clone() }, ..s.clone() });
        }
        if wr.flush_err.is_some() {
            out.push(PnmScenario { writer: WriterCfg { flush_err: None, ..wr.clone() }, ..s.clone() });
        }
        if wr.create_err.is_some() {
            out.push(PnmScenario { writer: WriterCfg { create_err: None, ..wr.clone() }, ..s.clone() });
        }
    }
    match &s.work {
        PnmWork::Lib(li) => {
            let (w, h, _) = li.expected();
            let with = |li: LibImage| PnmScenario { work: PnmWork::Lib(li), ..s.clone() };
            if !matches!(li.view, View::Owned | View::Ref) {
                // the same dimensions as a plain owned buffer
                out.push(with(LibImage { bw: w, bh: h, pixels: li.pixels.clone(), view: View::Ref }));
            }
            if li.pixels != Pix::Const(0) {
                out.push(with(LibImage { pixels: Pix::Const(0), ..li.clone() }));
            }
            // smaller backing buffer with the view clipped to it
            let clip = |r: RectU, bw: u32, bh: u32| {
                let x = r.x.min(bw);
                let y = r.y.min(bh);
                RectU { x, y, w: r.w.min(bw - x), h: r.h.min(bh - y) }
            };
            for (bw, bh) in [(li.bw / 2, li.bh), (li.bw, li.bh / 2), (li.bw.saturating_sub(1), li.bh), (li.bw, li.bh.saturating_sub(1))] {
                if (bw, bh) == (li.bw, li.bh) {
                    continue;
                }
                let view = match li.view {
                    View::Owned => View::Owned,
                    View::Ref => View::Ref,
                    View::Slice(r) => View::Slice(clip(r, bw, bh)),
                    View::MutSlice(r) => View::MutSlice(clip(r, bw, bh)),
                    View::Nested(o, i) => {
                        let o = clip(o, bw, bh);
                        View::Nested(o, clip(i, o.w, o.h))
                    }
                    v @ View::SliceNew { .. } => v,
                };
                if matches!(view, View::SliceNew { .. }) {
                    continue;
                }
                out.push(with(LibImage { bw, bh, pixels: li.pixels.clone(), view }));
            }
            if let View::SliceNew { w, h, stride, offset } = li.view {
                let mut c = vec![];
                if offset > 0 {
                    c.push(View::SliceNew { w, h, stride, offset: 0 });
                }
                if h > 1 {
                    c.push(View::SliceNew { w, h: h / 2, stride, offset });
                    c.push(View::SliceNew { w, h: h - 1, stride, offset });
                }
                if w > 1 {
                    c.push(View::SliceNew { w: w / 2, h, stride, offset });
                    c.push(View::SliceNew { w: w - 1, h, stride, offset });
                }
                if stride > w {
                    c.push(View::SliceNew { w, h, stride: w, offset });
                }
                for v in c {
                    out.push(with(LibImage { view: v, ..li.clone() }));
                }
                // less surplus backing data
                if let View::SliceNew { w, h, stride, offset } = li.view {
                    let need = offset + if h == 0 { 0 } else { (h - 1) * stride + w };
                    for bh in [li.bh / 2, li.bh.saturating_sub(1)] {
                        if bh < li.bh && li.bw * bh >= need.max(1) {
                            out.push(with(LibImage { bh, ..li.clone() }));
                        }
                    }
                }
            }
            // move the view to the origin
            match li.view {
                View::Slice(r) if r.x + r.y > 0 => out.push(with(LibImage { view: View::Slice(RectU { x: 0, y: 0, ..r }), ..li.clone() })),
                View::MutSlice(r) if r.x + r.y > 0 => out.push(with(LibImage { view: View::MutSlice(RectU { x: 0, y: 0, ..r }), ..li.clone() })),
                View::Nested(o, i) => out.push(with(LibImage { view: View::Slice(RectU { x: o.x + i.x, y: o.y + i.y, w: i.w, h: i.h }), ..li.clone() })),
                _ => {}
            }
        }
        PnmWork::Foreign(f) => {
            let with = |f: Foreign| PnmScenario { work: PnmWork::Foreign(f), ..s.clone() };
            for (w, h) in [(f.w / 2, f.h), (f.w, f.h / 2), (f.w.saturating_sub(1), f.h), (f.w, f.h.saturating_sub(1))] {
                if (w, h) != (f.w, f.h) && w > 0 && h > 0 {
                    out.push(with(Foreign { w, h, ..f.clone() }));
                }
            }
            if f.pixels != Pix::Const(0) {
                out.push(with(Foreign { pixels: Pix::Const(0), ..f.clone() }));
            }
            if f.sep0 != b" " {
                out.push(with(Foreign { sep0: b" ".to_vec(), ..f.clone() }));
            }
            if f.sep1 != b" " {
                out.push(with(Foreign { sep1: b" ".to_vec(), ..f.clone() }));
            }
            if f.sep2 != b" " {
                out.push(with(Foreign { sep2: b" ".to_vec(), ..f.clone() }));
            }
            if f.pre_raster != b'\n' {
                out.push(with(Foreign { pre_raster: b'\n', ..f.clone() }));
            }
            if f.sample_seps != [" ".to_string()] {
                out.push(with(Foreign { sample_seps: vec![" ".into()], ..f.clone() }));
            }
            if !f.trailing.is_empty() {
                out.push(with(Foreign { trailing: String::new(), ..f.clone() }));
            }
            if f.max != 255 {
                out.push(with(Foreign { max: 255, ..f.clone() }));
            }
            if !f.zero_pad.is_empty() {
                out.push(with(Foreign { zero_pad: vec![], ..f.clone() }));
            }
            // freeze into raw bytes so that byte-level shrinking can take over
            out.push(PnmScenario { work: PnmWork::Raw { bytes: f.render() }, ..s.clone() });
        }
        PnmWork::Raw { bytes } => {
            // drop byte ranges from the tail end first (the header matters most)
            let n = bytes.len();
            let mut width = n / 2;
            while width >= 1 {
                let mut end = n;
                while end >= width {
                    let a = end - width;
                    let mut t = bytes[..a].to_vec();
                    t.extend_from_slice(&bytes[end..]);
                    out.push(PnmScenario {
                        work: PnmWork::Raw { bytes: t },
                        writer: s.writer.clone(),
                        disk: crate::obj::shift_faults(&s.disk, a, end),
                        reader: crate::obj::shift_reader(&s.reader, a, end),
                        via_path: s.via_path,
                    });
                    end -= width;
                    if out.len() > 400 {
                        break;
                    }
                }
                if width == 1 || out.len() > 400 {
                    break;
                }
                width /= 2;
            }
        }
    }
    out
}

// ---------------------------------------------------------------------------
// Sweeps
// ---------------------------------------------------------------------------

pub fn sweep_base(seed: u64) -> crate::sweep::SweepBase {
    let mut s = seed;
    loop {
        let mut rng = Rng::new(crate::rng::splitmix(&mut s));
        // half canonical P6 (what write_ppm emits), half foreign spellings
        let (bytes, spans) = if rng.chance(1, 2) {
            let (w, h) = (rng.range(1, 6) as u32, rng.range(1, 6) as u32);
            let f = Foreign {
                fmt: 6, w, h, max: 255, pixels: gen_pix(&mut rng),
                sep0: b" ".to_vec(), sep1: b" ".to_vec(), sep2: b" ".to_vec(),
                pre_raster: b'\n', sample_seps: vec![], trailing: String::new(), zero_pad: vec![],
            };
            let hl = f.header_len();
            (f.render(), (0..h as usize).map(|y| (hl + y * 3 * w as usize, 3 * w as usize)).collect::<Vec<_>>())
        } else {
            let mut f = gen_foreign(&mut rng);
            f.w = f.w.min(6);
            f.h = f.h.min(5);
            let b = f.render();
            // spans: header fields
            (b, vec![(0, 2), (2, f.sep0.len()), (2 + f.sep0.len(), f.w.to_string().len())])
        };
        if bytes.len() >= 8 && bytes.len() <= 500 {
            return crate::sweep::SweepBase::new(bytes, spans, &mut rng);
        }
    }
}

pub fn sweep_job(base: &crate::sweep::SweepBase, k: usize) -> (PnmScenario, &'static str) {
    let (disk, reader, kind) = base.job(k);
    (PnmScenario { work: PnmWork::Raw { bytes: base.bytes.clone() }, writer: WriterCfg::plain(), disk, reader, via_path: false }, kind)
}
