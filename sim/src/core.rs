//! Shared run machinery: panic capture, violation records, per-run results and the
//! order-independent statistics the evidence is built from.

use std::cell::RefCell;
use std::collections::BTreeMap;
use std::panic::{self, AssertUnwindSafe};

use serde::{Deserialize, Serialize};

use crate::seams::{Event, Ledger, StepLimit};

#[derive(Clone, Debug, PartialEq, Eq)]
pub struct PanicInfo {
    pub msg: String,
    pub file: String,
    pub line: u32,
}

thread_local! {
    static LAST_PANIC: RefCell<Option<PanicInfo>> = const { RefCell::new(None) };
    /// Nesting depth of `catch`: a panic at depth 0 is the harness's own and is printed.
    static CATCH_DEPTH: std::cell::Cell<u32> = const { std::cell::Cell::new(0) };
}

/// Installs a silent panic hook that records message and location. A panic inside the
/// code under test is data for the oracles, not output.
pub fn install_panic_hook() {
    panic::set_hook(Box::new(|info| {
        let msg = if let Some(s) = info.payload().downcast_ref::<&str>() {
            s.to_string()
        } else if let Some(s) = info.payload().downcast_ref::<String>() {
            s.clone()
        } else if info.payload().downcast_ref::<StepLimit>().is_some() {
            "<step limit>".to_string()
        } else {
            "<non-string panic payload>".to_string()
        };
        let (file, line) = info
            .location()
            .map(|l| (l.file().to_string(), l.line()))
            .unwrap_or_default();
        if CATCH_DEPTH.with(|d| d.get()) == 0 {
            eprintln!("harness panic at {file}:{line}: {msg}");
        }
        LAST_PANIC.with(|p| *p.borrow_mut() = Some(PanicInfo { msg, file, line }));
    }));
}

#[derive(Clone, Debug, PartialEq, Eq)]
pub enum Caught {
    Panic(PanicInfo),
    /// The consumer exceeded its bound on I/O calls and was stopped.
    StepLimit { seam: char, calls: u32 },
}

impl Caught {
    /// Failure signature class: stable under minimisation, specific enough that two
    /// different defects do not merge.
    pub fn class(&self) -> String {
        match self {
            Caught::Panic(p) => format!("panic@{}:{}", short_path(&p.file), p.line),
            Caught::StepLimit { seam, .. } => format!("nontermination@{seam}"),
        }
    }
    pub fn detail(&self) -> String {
        match self {
            Caught::Panic(p) => format!("panicked at {}:{}: {}", p.file, p.line, truncate(&p.msg, 300)),
            Caught::StepLimit { seam, calls } => {
                format!("still issuing '{seam}' calls after {calls} calls: stopped as non-terminating")
            }
        }
    }
}

pub fn short_path(p: &str) -> String {
    // "/repo/core/src/util/pnm.rs" -> "core/src/util/pnm.rs"; std paths keep their tail.
    if let Some(i) = p.find("/repo/") {
        p[i + 6..].to_string()
    } else if let Some(i) = p.find("/library/") {
        format!("std:{}", &p[i + 9..])
    } else {
        p.to_string()
    }
}

pub fn truncate(s: &str, n: usize) -> String {
    if s.len() <= n {
        s.to_string()
    } else {
        let mut e = n;
        while !s.is_char_boundary(e) {
            e -= 1;
        }
        format!("{}…", &s[..e])
    }
}

pub fn catch<R>(f: impl FnOnce() -> R) -> Result<R, Caught> {
    LAST_PANIC.with(|p| *p.borrow_mut() = None);
    CATCH_DEPTH.with(|d| d.set(d.get() + 1));
    let res = panic::catch_unwind(AssertUnwindSafe(f));
    CATCH_DEPTH.with(|d| d.set(d.get() - 1));
    match res {
        Ok(r) => Ok(r),
        Err(payload) => {
            if let Some(s) = payload.downcast_ref::<StepLimit>() {
                return Err(Caught::StepLimit { seam: s.seam, calls: s.calls });
            }
            let info = LAST_PANIC.with(|p| p.borrow_mut().take()).unwrap_or(PanicInfo {
                msg: "<unknown>".into(),
                file: String::new(),
                line: 0,
            });
            Err(Caught::Panic(info))
        }
    }
}

#[derive(Serialize, Deserialize, Clone, Debug, PartialEq, Eq, PartialOrd, Ord)]
pub struct Violation {
    /// Oracle id: T, S, X, A, C, E (DESIGN.md §3.6).
    pub oracle: String,
    /// Failure signature class.
    pub class: String,
    pub detail: String,
}

impl Violation {
    pub fn new(oracle: &str, class: impl Into<String>, detail: impl Into<String>) -> Self {
        Violation { oracle: oracle.into(), class: class.into(), detail: detail.into() }
    }
    pub fn key(&self) -> String {
        format!("{}:{}", self.oracle, self.class)
    }
}

/// Everything one executed scenario reports.
#[derive(Clone, Debug, Default)]
pub struct RunResult {
    pub violations: Vec<Violation>,
    pub ledger: Ledger,
    pub log_hash: u64,
    pub events: Vec<Event>,
    /// Oracle id -> (applied, passed).
    pub oracles: BTreeMap<&'static str, (u64, u64)>,
    /// Reach probes hit in this run.
    pub probes: Vec<&'static str>,
    /// Free-form facts for replay files (delivered bytes, results, reference verdict).
    pub notes: BTreeMap<String, String>,
    /// Whether only benign behaviour (or none) fired.
    pub benign_only: bool,
}

impl RunResult {
    pub fn oracle(&mut self, id: &'static str, passed: bool) {
        let e = self.oracles.entry(id).or_insert((0, 0));
        e.0 += 1;
        if passed {
            e.1 += 1;
        }
    }
    pub fn probe(&mut self, name: &'static str) {
        if !self.probes.contains(&name) {
            self.probes.push(name);
        }
    }
    pub fn violate(&mut self, v: Violation) {
        self.violations.push(v);
    }
}

/// Aggregated over a batch. Every field is a sum or a set, so the fold is independent of
/// worker count and order.
#[derive(Serialize, Deserialize, Clone, Debug, Default)]
pub struct Stats {
    pub runs: u64,
    pub runs_benign_only: u64,
    pub runs_destructive: u64,
    pub runs_nontrivial: u64,
    pub steps: u64,
    pub fired: BTreeMap<String, u64>,
    pub oracles: BTreeMap<String, (u64, u64)>,
    pub oracles_benign_only: BTreeMap<String, (u64, u64)>,
    pub oracles_destructive: BTreeMap<String, (u64, u64)>,
    pub probes: BTreeMap<String, u64>,
    pub stacks: BTreeMap<String, u64>,
    pub jobs: BTreeMap<String, u64>,
    pub violations: u64,
}

impl Stats {
    pub fn absorb(&mut self, r: &RunResult, job_kind: &str, stacks: &[String]) {
        use crate::seams::K;
        self.runs += 1;
        *self.jobs.entry(job_kind.to_string()).or_default() += 1;
        if r.benign_only {
            self.runs_benign_only += 1;
        } else {
            self.runs_destructive += 1;
        }
        if r.ledger.any_fault_fired() {
            self.runs_nontrivial += 1;
        }
        self.steps += r.ledger.get(K::read_calls) + r.ledger.get(K::write_calls) + r.ledger.get(K::flush_calls);
        for (k, v) in r.ledger.to_map() {
            *self.fired.entry(k).or_default() += v;
        }
        for (k, (a, p)) in &r.oracles {
            let e = self.oracles.entry(k.to_string()).or_default();
            e.0 += a;
            e.1 += p;
            let m = if r.benign_only { &mut self.oracles_benign_only } else { &mut self.oracles_destructive };
            let e = m.entry(k.to_string()).or_default();
            e.0 += a;
            e.1 += p;
        }
        for p in &r.probes {
            *self.probes.entry(p.to_string()).or_default() += 1;
        }
        for s in stacks {
            *self.stacks.entry(s.clone()).or_default() += 1;
        }
        self.violations += r.violations.len() as u64;
    }

    pub fn merge(&mut self, o: &Stats) {
        self.runs += o.runs;
        self.runs_benign_only += o.runs_benign_only;
        self.runs_destructive += o.runs_destructive;
        self.runs_nontrivial += o.runs_nontrivial;
        self.steps += o.steps;
        self.violations += o.violations;
        fn m1(a: &mut BTreeMap<String, u64>, b: &BTreeMap<String, u64>) {
            for (k, v) in b {
                *a.entry(k.clone()).or_default() += v;
            }
        }
        fn m2(a: &mut BTreeMap<String, (u64, u64)>, b: &BTreeMap<String, (u64, u64)>) {
            for (k, v) in b {
                let e = a.entry(k.clone()).or_default();
                e.0 += v.0;
                e.1 += v.1;
            }
        }
        m1(&mut self.fired, &o.fired);
        m1(&mut self.probes, &o.probes);
        m1(&mut self.stacks, &o.stacks);
        m1(&mut self.jobs, &o.jobs);
        m2(&mut self.oracles, &o.oracles);
        m2(&mut self.oracles_benign_only, &o.oracles_benign_only);
        m2(&mut self.oracles_destructive, &o.oracles_destructive);
    }
}

// ---------------------------------------------------------------------------
// Bytes <-> readable strings for replay files
// ---------------------------------------------------------------------------

/// Printable ASCII stays, `\n` `\t` `\r` `\\` are escaped, everything else is `\xNN`.
pub fn escape_bytes(bs: &[u8]) -> String {
    let mut s = String::with_capacity(bs.len());
    for &b in bs {
        match b {
            b'\\' => s.push_str("\\\\"),
            b'\n' => s.push_str("\\n"),
            b'\t' => s.push_str("\\t"),
            b'\r' => s.push_str("\\r"),
            0x20..=0x7e => s.push(b as char),
            _ => s.push_str(&format!("\\x{b:02x}")),
        }
    }
    s
}

pub fn unescape_bytes(s: &str) -> Result<Vec<u8>, String> {
    let b = s.as_bytes();
    let mut out = Vec::with_capacity(b.len());
    let mut i = 0;
    while i < b.len() {
        if b[i] != b'\\' {
            out.push(b[i]);
            i += 1;
            continue;
        }
        let c = *b.get(i + 1).ok_or("dangling backslash")?;
        match c {
            b'\\' => out.push(b'\\'),
            b'n' => out.push(b'\n'),
            b't' => out.push(b'\t'),
            b'r' => out.push(b'\r'),
            b'x' => {
                let h = s.get(i + 2..i + 4).ok_or("short \\x escape")?;
                out.push(u8::from_str_radix(h, 16).map_err(|e| e.to_string())?);
                i += 2;
            }
            _ => return Err(format!("bad escape \\{}", c as char)),
        }
        i += 2;
    }
    Ok(out)
}

pub mod escaped {
    use serde::{Deserialize, Deserializer, Serializer};
    pub fn serialize<S: Serializer>(v: &Vec<u8>, s: S) -> Result<S::Ok, S::Error> {
        s.serialize_str(&super::escape_bytes(v))
    }
    pub fn deserialize<'de, D: Deserializer<'de>>(d: D) -> Result<Vec<u8>, D::Error> {
        let s = String::deserialize(d)?;
        super::unescape_bytes(&s).map_err(serde::de::Error::custom)
    }
}

// ---------------------------------------------------------------------------
// Scratch files for the real-file-system cross-check of the path wrappers
// ---------------------------------------------------------------------------

/// A fresh file name in a per-process scratch directory (`$VERIF_SCRATCH`, default
/// `/verif/work`), or `None` if no such directory can be made.
pub fn scratch_file(ext: &str) -> Option<std::path::PathBuf> {
    // One path per process and kind, used again and again: what a program that saves
    // and reloads "the" file does, and the only way a stale cache keyed by path shows.
    let root = std::env::var("VERIF_SCRATCH").unwrap_or_else(|_| "/verif/work".into());
    let dir = std::path::Path::new(&root).join(format!("fs-{}", std::process::id()));
    std::fs::create_dir_all(&dir).ok()?;
    Some(dir.join(format!("scratch.{ext}")))
}

/// The same bytes with their last decimal digit changed: a rewrite of a file that keeps
/// its length (and, written at once, quite possibly its timestamp) but not its content.
pub fn same_length_variant(bytes: &[u8]) -> Option<Vec<u8>> {
    let i = bytes.iter().rposition(|b| b.is_ascii_digit())?;
    let mut v = bytes.to_vec();
    v[i] = b'0' + (v[i] - b'0' + 1) % 10;
    Some(v)
}

pub fn scratch_cleanup() {
    let root = std::env::var("VERIF_SCRATCH").unwrap_or_else(|_| "/verif/work".into());
    let _ = std::fs::remove_dir_all(std::path::Path::new(&root).join(format!("fs-{}", std::process::id())));
}
